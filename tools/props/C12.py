"""C12 — monotonic fitting terminates with the same result under every thread schedule.

Proof side: Properties_C12.v (theorems about Handshake.v for every N and n_alpha).
Tie: (a) schedules produced by the EXTRACTED model (random walks with spurious wake-ups; for small
configurations one schedule per reachable transition of the model) are forced, step by step, on the real
walk_descents/evaluate_descent through hook H1 and the deterministic scheduler harness/C12_sched.cpp; the
real threads' sequence of pthread operations must be the one the model predicts and the result must equal both
the model's and a sequential reference computed from the same numbers; (b) oracle = the property itself:
free-running walk_descents, nnls_normal_block3 and spline fits under OMP_NUM_THREADS in {1,2,3,4,8,16,32}
must terminate (timeout) with bitwise identical results; on every call of walk_descents (forced or free-running) which thread
calls CHOLMOD with which cholmod_common is observed through ld --wrap and must be what the model says (D15, fixed: one common per
worker, started and finished by the coordinator, balanced at finish, the caller's common untouched); (c) thorough: the same
free-running under TSan, where a plain counter per cholmod_common stands in for the (uninstrumented) CHOLMOD accesses;
(d) test of the termination bound B0(N, n_alpha) of C12_terminates_from_init: against the exact longest schedule of the
extracted model for small configurations, and on every generated schedule."""
import collections, glob, json, os, re, subprocess, sys, time
from common import *

PROPERTIES_FILE = "Properties_C12"
ASSUMPTIONS = [
    "pthread mutex / condition variable / create / join semantics as in POSIX (written out in Handshake.v: step, spurious); sequential consistency for race-free executions",
    "the worker's numeric computation is abstracted to 'worker j, told to use trial step a, leaves outputs for a'; residual order enters only through the abstract relation lt",
    "CHOLMOD calls are abstracted to 'writes the cholmod_common it is given' (status and allocation statistics live there); which thread calls CHOLMOD with which common is observed on the real code on every walk_descents of this run (ld --wrap) and compared with the model's access sets (worker j: commons[j] only; coordinator: all of them before the first create and after the last join)",
    "a model step is one pthread call plus adjacent straight-line code under an unchanged mutex state; the j-loops under the mutex and the selection loop are single steps whose access sets are the union (sound for race freedom because the union is what is checked)",
    "OS fairness is not modelled: theorems say some thread can always move (no deadlock) and that an execution makes at most B0(N, n_alpha) thread steps plus two per spurious wake-up (so every maximal execution with finitely many spurious wake-ups returns); that the OS eventually runs some enabled thread and delivers only finitely many spurious wake-ups is assumed; sched_setaffinity failures are ignored",
    "Handshake.v tied to cholesky_solve.c by forcing model-generated schedules on the real code on this run's cases (operation sequence + result compared exactly)",
]
TRUSTED_EXTRA = [
    "harness/C12_sched.cpp (cooperative scheduler implementing mutex/condvar semantics itself) and hook header photospline_verif_sched.h",
    "extract/handshake_driver.ml (schedule generation, exhaustive exploration of small configurations used as a test only)",
    "ThreadSanitizer (thorough tier) for the free-running race check; AddressSanitizer/LeakSanitizer (thorough tier) for the release of the per-worker commons",
    "GNU ld --wrap of cholmod_l_{start,finish,allocate_dense,copy_dense,sdmult,free_dense} in the C12 harness to attribute every CHOLMOD call made inside walk_descents to (thread, cholmod_common) without changing the library",
]
THREADS = [1, 2, 3, 4, 8, 16, 32]
SRC_FLAGS = ["-I" + os.path.join(REPO, "src/fitter"), "-pthread"]
HSRCS = ["C12_harness.cpp", "C12_sched.cpp"]
WRAPS = ["-Wl,--wrap=cholmod_l_" + f for f in ("start", "finish", "allocate_dense", "copy_dense", "sdmult", "free_dense")]

def H(v):
    return hexd(float(v))

# ---------------------------------------------------------------------------------------------- data
def gen_data(rng, nF=None, nneg=None, ties=None):
    """small line-search problem: x >= 0 current solution, x_F trial with negatives; AtA SPD-ish, Atb random"""
    nF = nF if nF is not None else rng.rint(1, 7)
    n = nF + rng.rint(0, 2)
    idx = list(range(n)); rng.shuffle(idx); F = sorted(idx[:nF])
    x = [0.0] * n
    for i in range(n):
        x[i] = 0.0 if rng.chance(0.15) else round(0.1 + 2 * rng.unit(), 3)
    nneg = nneg if nneg is not None else rng.rint(0, nF)
    negs = set(idx2 for idx2 in rng_sample(rng, list(range(nF)), nneg))
    xF = [(-round(0.05 + 2 * rng.unit(), 3) if i in negs else round(2 * rng.unit(), 3)) for i in range(nF)]
    # ties: several coefficients reach zero at bit-for-bit the same distance along the descent (equal or power-of-two rescaled
    # (x, x_F) pairs), so the sorted list of trial steps holds repeated values — in the middle and at its end
    if ties is None:
        ties = rng.chance(0.3)
    if ties and len(negs) >= 2:
        nl = sorted(negs)
        t0 = rng.choice(nl)
        if dfrom(int(H(x[F[t0]]), 16)) == 0.0:
            x[F[t0]] = round(0.1 + 2 * rng.unit(), 3)
        for j in nl:
            if j != t0 and rng.chance(0.7):
                k = 2.0 ** rng.choice([0, 0, 1, -1, -2])
                x[F[j]] = x[F[t0]] * k; xF[j] = xF[t0] * k
    M = [[rng.unit() - 0.3 for _ in range(nF)] for _ in range(nF + 1)]
    AtA = [[sum(M[k][i] * M[k][j] for k in range(nF + 1)) + (0.05 if i == j else 0.0) for j in range(nF)] for i in range(nF)]
    style = rng.below(3)
    tied_now = ties and len(negs) >= 2
    if tied_now and rng.chance(0.75):
        style = 2          # repeated steps matter when the search gets as far as them: make the large steps bad
    if style == 0:
        Atb = [2 * rng.unit() - 1 for _ in range(nF)]
    elif style == 1:   # x_F is the unconstrained minimiser: residual decreases towards alpha = 1 before projection
        Atb = [sum(AtA[i][j] * xF[j] for j in range(nF)) for i in range(nF)]
    else:              # minimiser near the current solution: large steps are bad, selection happens late
        tau = (0.01 + 0.1 * rng.unit()) if tied_now else 0.02 + 0.5 * rng.unit()   # unconstrained minimum along the line at alpha = tau: steps > 2 tau do not reduce the residual
        Atb = [sum(AtA[i][j] * (x[F[j]] + tau * (xF[j] - x[F[j]])) for j in range(nF)) for i in range(nF)]
    return {"nF": nF, "n": n, "F": F, "x": [H(v) for v in x], "xF": [H(v) for v in xF],
            "AtA": [H(AtA[i][j]) for j in range(nF) for i in range(nF)], "Atb": [H(v) for v in Atb]}

def rng_sample(rng, xs, k):
    xs = list(xs); rng.shuffle(xs); return xs[:k]

def case_line(cid, d, N, sched):
    return "case %s threads %d nF %d n %d F %s x %s xF %s AtA %s Atb %s sched %d %s" % (
        cid, N, d["nF"], d["n"], " ".join(map(str, d["F"])), " ".join(d["x"]), " ".join(d["xF"]), " ".join(d["AtA"]),
        " ".join(d["Atb"]), len(sched), " ".join(map(str, sched)))

def parse_fields(line, keys):
    """'key v v v key2 v ...' -> dict key -> list of tokens"""
    toks = line.split()
    out, cur = {}, None
    for t in toks:
        if t in keys and t not in out:
            cur = t; out[cur] = []
        elif cur is not None:
            out[cur].append(t)
    return out

REFK = ("na", "alpha", "res", "chosen", "feasible", "x", "H1", "residual")
OUTK = ("ret", "x", "H1", "residual", "calcs", "consumed", "steps", "drift", "commons", "trace")

SCHED_BATCH_SECONDS, SLOW_BATCHES = [], []
def run_sched_cases(exe, lines, timeout_each=20.0, max_hangs=3):
    """runs case lines through `harness sched`; restarts after a process-ending failure (DEADLOCK etc.) or a hang.
    returns dict id -> {"ref":..., "out":..., "fail": str|None, "hang": bool}"""
    res = {}
    todo = list(lines)
    hangs = 0
    while todo and hangs < max_hangs:           # a tree that hangs is reported after a few timeouts, not after hundreds
        ids = [l.split()[1] for l in todo]
        t0 = time.time(); slow = False
        try:
            p = subprocess.run([exe, "sched"], input="\n".join(todo) + "\n", stdout=subprocess.PIPE, stderr=subprocess.PIPE,
                               text=True, timeout=max(float(os.environ.get("C12_BATCH_BUDGET","60")), timeout_each + 0.02 * len(todo)) if not os.environ.get("C12_BATCH_BUDGET") else float(os.environ["C12_BATCH_BUDGET"]))
            stdout, hung = p.stdout, False
        except subprocess.TimeoutExpired as e:
            stdout = e.stdout.decode() if isinstance(e.stdout, bytes) else (e.stdout or "")
            hung = True
        SCHED_BATCH_SECONDS.append(round(time.time() - t0, 2))
        if hung:
            # the budget is for the whole batch: on a loaded machine a slow batch is not a hang. Run the first case without an
            # outcome on its own, with a generous budget, before calling it one.
            done = set()
            for l in stdout.split("\n"):
                if l.startswith("out ") or l.startswith("fail "):
                    done.add(l.split()[1])
            k0 = 0
            while k0 < len(ids) and ids[k0] in done:
                k0 += 1
            if k0 < len(todo):
                try:
                    p1 = subprocess.run([exe, "sched"], input=todo[k0] + "\n", stdout=subprocess.PIPE, stderr=subprocess.PIPE,
                                        text=True, timeout=3 * timeout_each)
                    stdout += "\n" + p1.stdout
                    if any(l.startswith(("out ", "fail ")) and l.split()[1] == ids[k0] for l in p1.stdout.split("\n")):
                        hung = False          # it finishes on its own: the batch was merely slow; go on behind it
                        slow = True
                        SLOW_BATCHES.append(ids[k0])
                except subprocess.TimeoutExpired:
                    pass
        for l in stdout.split("\n"):
            if l.startswith("ref "):
                cid = l.split()[1]; res.setdefault(cid, {"fail": None, "hang": False})["ref"] = parse_fields(l, REFK)
            elif l.startswith("out "):
                cid = l.split()[1]; res.setdefault(cid, {"fail": None, "hang": False})["out"] = parse_fields(l, OUTK)
            elif l.startswith("fail "):
                cid = l.split()[1]; res.setdefault(cid, {"fail": None, "hang": False})["fail"] = l.split(None, 2)[2]
        # cases are processed in order; the process ends after a scheduler failure, a crash or our timeout
        k = 0
        while k < len(ids) and ids[k] in res and ("out" in res[ids[k]] or res[ids[k]]["fail"]):
            k += 1
        if slow:
            todo = todo[k:]
            continue
        if k < len(todo):
            prev_failed = k > 0 and res[ids[k - 1]]["fail"] and "out" not in res[ids[k - 1]]
            if hung:
                res.setdefault(ids[k], {"fail": None, "hang": False})["hang"] = True
                hangs += 1
                k += 1
            elif not prev_failed:
                res.setdefault(ids[k], {"fail": None, "hang": False})["fail"] = "CRASH harness ended without an outcome for this case"
                k += 1
        todo = todo[k:]
    return res

def ranks_of(res_hex):
    vals = [dfrom(int(h, 16)) for h in res_hex]
    order = sorted(set(vals))
    return [order.index(v) for v in vals]

def project(steps):
    """model schedule -> (forced schedule for the harness, expected trace)"""
    sched, trace = [], []
    for s in steps:
        t, lab = s.split(":")
        if lab == "I":
            continue
        if lab == "X":
            sched.append(1000 + int(t))
        else:
            sched.append(int(t))
        trace.append(s)
    return sched, trace

def model_requests(mexe, reqs):
    """reqs: list of request lines; returns dict id -> {"S": [(k,end,chosen,feas,steps)], "info": {...}}"""
    p = subprocess.run([mexe], input="\n".join(reqs) + "\n", stdout=subprocess.PIPE, stderr=subprocess.PIPE, text=True, timeout=900)
    out = collections.defaultdict(lambda: {"S": [], "info": None})
    for l in p.stdout.split("\n"):
        if l.startswith("S "):
            head, _, tail = l.partition("|")
            f = head.split()
            out[f[1]]["S"].append((int(f[2]), f[3], f[4], f[5], tail.split()))
        elif l.startswith("info "):
            f = l.split()
            out[f[1]]["info"] = dict(zip(f[2::2], f[3::2]))
    return out

# ---------------------------------------------------------------------------------------------- checks
def B0(N, na):
    """the bound of C12_terminates_from_init, as written out by theorem C12_B0 (Properties_C12.v), N >= 1, na >= 1;
    B0(2,3) = 71 is Example C12_ex_bound"""
    return (6 * N + 6) + ((na + N - 1) // N) * (6 + 2 * N) + na * (7 + 2 * N)
assert B0(2, 3) == 71

def check_termination_bound(mexe, configs, out, cov):
    """TEST of C12_terminates_from_init on the extracted model: the exact length of the longest schedule of thread steps from the
    initial state (memoised DFS of the step-only graph, which must be acyclic) must not exceed B0(N, n_alpha).  Residual order:
    strictly increasing (no trial step is accepted before the last one: every block runs — the longest case)."""
    reqs = ["L%d_%d %d %d 1 %s longest" % (N, na, N, na, ",".join(map(str, range(na)))) for (N, na) in configs]
    p = subprocess.run([mexe], input="\n".join(reqs) + "\n", stdout=subprocess.PIPE, stderr=subprocess.PIPE, text=True, timeout=900)
    table = {}
    for l in p.stdout.split("\n"):
        if not l.startswith("longest "):
            continue
        f = l.split()
        N, na = map(int, f[1][1:].split("_"))
        table["N=%d,n_alpha=%d" % (N, na)] = {"longest": f[2], "B0": B0(N, na), "states": int(f[4])}
        if f[2] == "cycle" or int(f[2]) > B0(N, na):
            out.violation("C12:model:termination-bound", "the model's step-only graph for N=%d n_alpha=%d %s (C12_terminates would be false)"
                          % (N, na, "has a cycle" if f[2] == "cycle" else "has a schedule of %s steps > B0 = %d" % (f[2], B0(N, na))),
                          {"kind": "model", "request": [r for r in reqs if r.startswith(f[1] + " ")][0], "schedule": l.partition("|")[2].strip()})
    if len(table) != len(configs):
        out.violation("C12:model:termination-bound", "the model driver did not answer every `longest` request", {"kind": "model", "no_failing_input_found": True,
                      "broken": "extract/handshake_driver longest", "stderr": p.stderr[-500:]})
    cov["longest_schedule_vs_bound"] = table
def check_commons(o, T, payload, out, cov, seen):
    """D15 (fixed): which thread called CHOLMOD with which cholmod_common during this walk_descents (harness, cw_*).
    Model (Handshake.acc, shared_common = false): the coordinator starts T commons before the first pthread_create and finishes
    them after the last join, worker j uses its own only, the caller's common is not used, and every common is balanced
    (malloc_count = memory_inuse = 0) when it is finished.  Works under forced schedules too: attribution is by thread, not by timing."""
    if "commons" not in o:
        return
    started, finished, unbal, shared, on_callers, unknown = map(int, o["commons"])
    cov["commons_checked_calls"] = cov.get("commons_checked_calls", 0) + 1
    def report(sig, what):
        if sig not in seen:
            seen.add(sig)
            out.violation(sig, what, dict(payload, commons=dict(started=started, finished=finished, unbalanced=unbal, shared_by_workers=shared,
                                                                 workers_on_callers_common=on_callers, unknown=unknown), threads=T))
    if shared:
        report("C12:race-cholmod-common", "two different worker threads call CHOLMOD with the same cholmod_common (%d calls, %d workers)" % (shared, T))
    if unbal:
        report("C12:cholmod-stats-unbalanced", "%d per-worker cholmod_common(s) with non-zero malloc_count / memory_inuse when finished (%d workers)" % (unbal, T))
    if started != T or finished != T or on_callers or unknown:
        report("C12:common-ownership", "use of cholmod_commons in walk_descents differs from the model: %d started / %d finished for %d workers, "
               "%d worker calls through the caller's common, %d calls through a common not started by the coordinator" % (started, finished, T, on_callers, unknown))

def check_forced(exe, mexe, datas, plan, out, cov, fixed_flag="1"):
    """plan: list of (data_index, N, mode_request_suffix).  Forces every generated schedule."""
    # phase A: sequential reference for each data set (free-running N=1 also serves as the first oracle run)
    refs = run_sched_cases(exe, [case_line("d%d" % i, d, 1, [-1]) for i, d in enumerate(datas)])
    reqs, meta = [], {}
    reported = set()
    for pi, (di, N, suffix) in enumerate(plan):
        r = refs.get("d%d" % di)
        if r and (r.get("hang") or r.get("fail")) and ("d%d" % di) not in reported:
            # the single-worker free run that serves as the sequential reference did not come back
            reported.add("d%d" % di)
            out.violation("C12:walk_descents:hang" if r.get("hang") else "C12:walk_descents:crash",
                          "free-running walk_descents with one worker did not return a result (%s)" % ("hang" if r.get("hang") else r["fail"][:200]),
                          {"kind": "sched", "line": case_line("d%d" % di, datas[di], 1, [-1]), "N": 1})
        if not r or "ref" not in r:
            continue
        na = int(r["ref"]["na"][0])
        rk = ranks_of(r["ref"]["res"])
        rid = "p%d" % pi
        reqs.append("%s %d %d %s %s %s" % (rid, N, na, fixed_flag, ",".join(map(str, rk)), suffix))
        meta[rid] = (di, N, na, rk)
    mres = model_requests(mexe, reqs)
    lines, expect = [], {}
    hist = collections.Counter()
    for rid, (di, N, na, rk) in meta.items():
        ref = refs["d%d" % di]["ref"]
        info = mres[rid]["info"]
        if info is not None:
            cov["model_explored_states"] = cov.get("model_explored_states", 0) + int(info["states"])
            cov["model_explored_transitions"] = cov.get("model_explored_transitions", 0) + int(info["edges"])
            bad = {k: int(info[k]) for k in ("deadlocks", "races", "early_reads", "badresults") if int(info[k])}
            cov["model_old_shape_races_on_shared_common"] = cov.get("model_old_shape_races_on_shared_common", 0) + int(info.get("races_common", 0))
            if bad and fixed_flag == "1":
                out.violation("C12:model:explore", "exhaustive exploration of the model for N=%d n_alpha=%d finds %s (a theorem of Properties_C12 would be false)" % (N, na, bad),
                              {"kind": "model", "request": [r for r in reqs if r.startswith(rid + " ")][0], "info": info})
        for (k, end, chosen, feas, steps) in mres[rid]["S"]:
            cid = "%s_%d" % (rid, k)
            sched, trace = project(steps)
            # C12_terminates_from_init on this very schedule: #thread steps <= B0 + 2 * #spurious wake-ups
            nspur = sum(1 for x in steps if x.endswith(":X"))
            slack = B0(N, na) + 2 * nspur - (len(steps) - nspur)
            cov["min_slack_to_termination_bound"] = min(cov.get("min_slack_to_termination_bound", slack), slack)
            if slack < 0:
                out.violation("C12:model:termination-bound", "a model schedule for N=%d n_alpha=%d has %d thread steps and %d spurious wake-ups: more than B0 + 2*spurious = %d"
                              % (N, na, len(steps) - nspur, nspur, B0(N, na) + 2 * nspur), {"kind": "model", "N": N, "n_alpha": na, "model_steps": steps})
            lines.append(case_line(cid, datas[di], N, sched))
            expect[cid] = (rid, end, chosen, feas, trace, sched, steps)
            hist["N=%d,blocks=%d" % (N, -(-na // N))] += 1
            if end == "fin" and (chosen != ref["chosen"][0] or feas != ref["feasible"][0]):
                out.violation("C12:model:result", "model result (%s,%s) differs from the sequential reference (%s,%s)" % (chosen, feas, ref["chosen"][0], ref["feasible"][0]),
                              {"kind": "sched", "line": lines[-1], "model_steps": steps})
    got = run_sched_cases(exe, lines)
    line_of = {l.split(None, 2)[1]: l for l in lines}
    nsteps = 0
    traces = set()
    for cid, (rid, end, chosen, feas, trace, sched, steps) in expect.items():
        di, N, na, rk = meta[rid]
        ref = refs["d%d" % di]["ref"]
        g = got.get(cid, {"fail": "no output", "hang": False})
        line = line_of[cid]
        payload = {"kind": "sched", "line": line, "model_end": end, "model_steps": steps, "expected_trace": trace, "N": N, "n_alpha": na}
        if g.get("hang"):
            out.violation("C12:walk_descents:hang", "walk_descents did not return under a forced schedule", payload); continue
        if g.get("fail"):
            payload["harness"] = g["fail"]
            if g["fail"].startswith("DEADLOCK") and end == "dead":
                # model deadlock schedule (code as found): the real code must hang at the same point
                out.violation("C12:walk_descents:deadlock", "lost wake-up: model deadlock schedule deadlocks the real walk_descents (every thread blocked in cond_wait/join)", payload)
            elif g["fail"].startswith("DEADLOCK"):
                out.violation("C12:walk_descents:deadlock", "real walk_descents deadlocks under a schedule the model completes: " + g["fail"][:200], payload)
            else:
                out.violation("C12:walk_descents:op-sequence", "forced schedule cannot be followed by the real code (model and code disagree on the next pthread operation): " + g["fail"][:200], payload)
            continue
        o = g["out"]
        nsteps += len(trace)
        traces.add(" ".join(trace))
        payload["impl"] = o
        if o["trace"] != trace or int(o["consumed"][0]) != len(sched):
            out.violation("C12:walk_descents:op-sequence", "sequence of pthread operations of the real threads differs from the model's prediction", payload); continue
        if o["x"] != ref["x"] or o["H1"] != ref["H1"] or o["ret"] != ref["feasible"] or (o["ret"] == ["1"] and o["residual"] != ref["residual"]):
            payload["ref"] = ref
            out.violation("C12:walk_descents:result", "result under a forced schedule differs from the sequential reference", payload)
        check_commons(o, N, payload, out, cov, cov.setdefault("_seen_commons", set()))
    cov["forced_schedules"] = cov.get("forced_schedules", 0) + len(expect)
    cov["forced_steps"] = cov.get("forced_steps", 0) + nsteps
    cov.setdefault("_traces", set()).update(traces)
    cov.setdefault("_hist", collections.Counter()).update(hist)
    return refs

def check_free(exe, datas, threads, reps, out, cov, tag="free", timeout_each=20.0):
    """free-running real threads: every thread count, result must equal the sequential reference; hang -> violation"""
    lines = []
    for i, d in enumerate(datas):
        for T in threads:
            for r in range(reps):
                lines.append(case_line("%s%d_%d_%d" % (tag, i, T, r), d, T, [-1]))
    got = run_sched_cases(exe, lines, timeout_each=timeout_each)
    n = 0
    drift, seen = {}, set()
    for l in lines:
        cid = l.split()[1]
        g = got.get(cid, {})
        payload = {"kind": "sched", "line": l}
        if g.get("hang") or g.get("fail"):
            out.violation("C12:walk_descents:hang", "free-running walk_descents did not return (%s)" % (g.get("fail") or "timeout"), payload); continue
        o, ref = g.get("out"), g.get("ref")
        if not o or not ref:
            continue
        n += 1
        T = int(l.split()[3])
        if o.get("drift") and o["drift"] != ["0", "0"]:
            # everything walk_descents allocates through the cholmod_common it also frees: the common's allocation
            # statistics must be unchanged afterwards.  A drift with >= 2 workers = lost update of malloc_count /
            # memory_inuse by concurrent cholmod_l_allocate_dense / copy_dense / free_dense (D15)
            drift[T] = drift.get(T, 0) + 1
            workers_on_callers = int(o["commons"][4]) if "commons" in o else 1      # a drift is a lost update only if workers use the caller's common at all
            if T >= 2 and workers_on_callers and "C12:race-cholmod-common" not in seen:
                seen.add("C12:race-cholmod-common")
                payload.update({"drift_malloc_count_memory_inuse": o["drift"], "threads": T})
                out.violation("C12:race-cholmod-common", "data race on the shared cholmod_common: allocation statistics drift by %s after a walk_descents with %d workers" % (o["drift"], T), dict(payload))
            elif (T == 1 or not workers_on_callers) and "C12:cholmod-stats-unbalanced" not in seen:
                seen.add("C12:cholmod-stats-unbalanced")
                out.violation("C12:cholmod-stats-unbalanced", "the caller's cholmod_common allocation statistics not restored by walk_descents (%d worker(s); not a race: %s): %s"
                              % (T, "one worker" if T == 1 else "no worker uses the caller's common", o["drift"]), dict(payload))
        check_commons(o, T, payload, out, cov, seen)
        if o["x"] != ref["x"] or o["H1"] != ref["H1"] or o["ret"] != ref["feasible"] or (o["ret"] == ["1"] and o["residual"] != ref["residual"]):
            payload.update({"impl": o, "ref": ref})
            out.violation("C12:walk_descents:result", "free-running result differs from the sequential reference with %s threads" % cid.split("_")[1], payload)
    cov["free_runs"] = cov.get("free_runs", 0) + n
    cov["free_runs_with_cholmod_stat_drift_by_threads"] = {str(k): v for k, v in sorted(drift.items())}
    return n

def run_end_to_end(exe, mode, lines, timeout):
    try:
        p = subprocess.run([exe, mode], input=("\n".join(lines) + "\n").encode(), stdout=subprocess.PIPE, stderr=subprocess.PIPE, timeout=timeout)
        return p.stdout.decode(errors="replace"), p.stderr.decode(errors="replace"), False
    except subprocess.TimeoutExpired as e:
        return (e.stdout or b"").decode(errors="replace"), (e.stderr or b"").decode(errors="replace"), True

def parse_e2e(stdout, begin, end):
    res, cur, cmp_ = collections.OrderedDict(), None, 0
    for l in stdout.split("\n"):
        if l.startswith(begin + " "):
            cur, cmp_ = tuple(l.split()[1:3]), 0
        elif l.startswith("\tCompare"):
            cmp_ += 1
        elif l.startswith(end + " "):
            f = l.split()
            res.setdefault(f[1], []).append((int(f[2]), cmp_, tuple(f[5:])))
            cur = None
    return res, cur

def check_thread_counts(exe, rng, nprob, nfit, out, cov, threads=THREADS):
    # nnls problems: pre-screen with one thread for those that reach walk_descents
    cand = []
    for k in range(nprob * 12):
        n = 4 + rng.below(14); m = n + 2 + rng.below(6)
        cand.append("case q%d n %d m %d seed %d corr %.2f" % (k, n, m, rng.below(1 << 30), rng.below(4) * 0.3))
    so, se, hung = run_end_to_end(exe, "nnls", [c + " threads 1" for c in cand], 60)
    pre, cur = parse_e2e(so, "nnlsbegin", "nnlsend")
    if hung:
        out.violation("C12:nnls:hang", "nnls_normal_block3 did not return with 1 thread", {"kind": "nnls", "line": [c for c in cand if c.split()[1] == (cur or ("?",))[0]][:1], "threads": 1})
    hit = [c for c in cand if pre.get(c.split()[1]) and pre[c.split()[1]][0][1] > 0]
    sel = hit[:nprob] + [c for c in cand if c not in hit][:max(2, nprob // 10)]
    tl = " threads " + " ".join(map(str, threads))
    so, se, hung = run_end_to_end(exe, "nnls", [c + tl for c in sel], 150)
    got, cur = parse_e2e(so, "nnlsbegin", "nnlsend")
    if hung:
        line = [c for c in sel if cur and c.split()[1] == cur[0]]
        out.violation("C12:nnls:hang", "nnls_normal_block3 did not return with %s threads" % (cur[1] if cur else "?"), {"kind": "nnls", "line": line, "threads": cur[1] if cur else None})
    nn = 0; wd = 0
    for c in sel:
        r = got.get(c.split()[1], [])
        nn += len(r); wd += sum(1 for t in r if t[1] > 0)
        if len(set(t[2] for t in r)) > 1:
            out.violation("C12:nnls:thread-count", "nnls_normal_block3 returns different coefficients for different thread counts",
                          {"kind": "nnls", "line": c + tl, "results": [(t[0], t[2]) for t in r]})
    # real spline fits through the C++ interface
    fits = []
    for k in range(nfit):
        dim = 2 if k % 3 else 1
        fits.append("case f%d dim %d ns %d nk %d order %d mono %d shape %d noise %d" % (k, dim, 24 if dim == 1 else 12, rng.choice([8, 10, 12]), rng.choice([2, 3]),
                    rng.below(dim), rng.below(4), rng.below(1000)))
    fits.append("case fk dim 2 ns 14 nk 8 order 3 mono 0 shape 0 noise 44")     # known to reach walk_descents
    if hung:
        fits = fits[-1:]                     # the solver already hangs: one fit is enough to show it end to end
    so, se, hung = run_end_to_end(exe, "fit", [c + tl for c in fits], 240 if len(fits) > 1 else 40)
    gotf, cur = parse_e2e(so, "fitbegin", "fitend")
    if hung:
        line = [c for c in fits if cur and c.split()[1] == cur[0]]
        out.violation("C12:fit:hang", "fit(..., monodim) did not return with %s threads" % (cur[1] if cur else "?"), {"kind": "fit", "line": line})
    nf = 0; wdf = 0
    for c in fits:
        r = gotf.get(c.split()[1], [])
        nf += len(r); wdf += sum(1 for t in r if t[1] > 0)
        if len(set(t[2] for t in r)) > 1:
            out.violation("C12:fit:thread-count", "fit(..., monodim) returns different coefficients for different thread counts",
                          {"kind": "fit", "line": c + tl, "results": [(t[0], t[2][:8]) for t in r]})
    cov["nnls_runs"] = nn; cov["nnls_runs_reaching_walk_descents"] = wd
    cov["fit_runs"] = nf; cov["fit_runs_reaching_walk_descents"] = wdf
    return nn + nf

def tsan_summaries(stderr):
    reps = []
    for blk in stderr.split("WARNING: ThreadSanitizer: ")[1:]:
        kind = blk.split("\n")[0].split("(")[0].strip()
        frames = re.findall(r"#\d+ (\S+) ", blk)
        reps.append((kind, frames))
    return reps

def check_tsan(rng, datas, out, cov):
    exe = build_harness("C12_harness_tsan", HSRCS, flavour=["-O1", "-g", "-fsanitize=thread", "-fno-omit-frame-pointer"], fitter=True, extra_flags=SRC_FLAGS, libs=WRAPS)
    env = dict(os.environ, TSAN_OPTIONS="halt_on_error=0 report_signal_unsafe=0 history_size=4")
    lines = []
    for i, d in enumerate(datas):
        for T in (2, 3, 4, 8):
            lines.append(case_line("t%d_%d" % (i, T), d, T, [-1]))
    p = subprocess.run([exe, "sched"], input="\n".join(lines) + "\n", stdout=subprocess.PIPE, stderr=subprocess.PIPE, text=True, timeout=900, env=env)
    reps = tsan_summaries(p.stderr)
    cov["tsan_runs"] = len(lines); cov["tsan_reports"] = len(reps)
    seen = set()
    for kind, frames in reps:
        if kind != "data race":
            sig = "C12:tsan:" + kind.replace(" ", "-")
        elif any("cholmod_" in f or f.startswith("SuiteSparse_") or f == "cw_touch" for f in frames[:6]):   # incl. __wrap_cholmod_l_* / cw_touch: the proxy counter of a common
            sig = "C12:race-cholmod-common"
        else:
            ours = [f for f in frames if f in ("evaluate_descent", "walk_descents", "calc_residual")]
            sig = "C12:race:" + (ours[0] if ours else (frames[0] if frames else "unknown"))
        if sig in seen:
            continue
        seen.add(sig)
        out.violation(sig, "ThreadSanitizer: %s in free-running walk_descents (%s)" % (kind, " <- ".join(frames[:5])),
                      {"kind": "tsan", "lines": lines[:8], "frames": frames[:12]})
    return len(lines)

def check_asan(rng, datas, out, cov):
    """thorough: free-running walk_descents and nnls_normal_block3 in an ASan+UBSan+LSan build: the per-worker commons, their
    workspace and the trial vectors allocated through them must all be released (cholmod_l_finish by the coordinator)"""
    exe = build_harness("C12_harness_asan", HSRCS, flavour="checked", fitter=True, extra_flags=SRC_FLAGS, libs=WRAPS)
    env = dict(os.environ, ASAN_OPTIONS="detect_leaks=1:abort_on_error=0:halt_on_error=1", UBSAN_OPTIONS="print_stacktrace=1")
    lines = [case_line("a%d_%d" % (i, T), d, T, [-1]) for i, d in enumerate(datas) for T in (1, 2, 3, 8)]
    nn = ["case qa%d n %d m %d seed %d corr %.2f threads 1 2 5" % (k, 6 + rng.below(10), 22, rng.below(1 << 30), rng.below(4) * 0.3) for k in range(12)]
    runs = 0
    for mode, ls in (("sched", lines), ("nnls", nn)):
        p = subprocess.run([exe, mode], input="\n".join(ls) + "\n", stdout=subprocess.PIPE, stderr=subprocess.PIPE, text=True, timeout=900, env=env)
        done = sum(1 for l in p.stdout.split("\n") if l.startswith(("out ", "nnlsend ")))
        runs += done
        m = re.search(r"ERROR: (AddressSanitizer|LeakSanitizer): ([\w-]+)|(runtime error: [^\n]*)", p.stderr)
        if m or p.returncode != 0:
            kind = (m.group(2) or "leak") if m and m.group(1) else ("ubsan" if m else "exit-%d" % p.returncode)
            if m and m.group(1) == "LeakSanitizer": kind = "leak"
            frames = re.findall(r"#\d+ 0x[0-9a-f]+ in (\S+)", p.stderr)[:12]
            out.violation("C12:sanitizer:%s:%s" % (mode, kind), "sanitizer report in free-running %s (%s)" % (mode, " <- ".join(frames[:6]) or p.stderr[-300:]),
                          {"kind": "asan", "mode": mode, "lines": ls[:8], "frames": frames, "stderr_tail": p.stderr[-1500:]})
    cov["asan_lsan_runs"] = runs
    return runs

# ---------------------------------------------------------------------------------------------- entry
def build_all():
    exe = build_harness("C12_harness", HSRCS, flavour="faithful", fitter=True, extra_flags=SRC_FLAGS, libs=WRAPS)
    mexe = build_extracted("handshake")
    return exe, mexe

def replay(path, exe, mexe):
    pl = json.load(open(path))
    kind = pl.get("kind")
    print("replaying %s case (%s)" % (kind, pl.get("signature")))
    if kind == "sched":
        r = run_sched_cases(exe, [pl["line"]])
        for cid, g in r.items():
            print(" case", cid)
            print("  reference :", {k: g.get("ref", {}).get(k) for k in ("na", "chosen", "feasible")})
            if g.get("hang"): print("  HANG (timeout)")
            if g.get("fail"): print("  scheduler :", g["fail"])
            if g.get("out"):
                print("  result    : ret %s H1 %s calcs %s" % (g["out"]["ret"], g["out"]["H1"], g["out"]["calcs"]))
                print("  equal to reference:", g["out"]["x"] == g["ref"]["x"] and g["out"]["H1"] == g["ref"]["H1"] and g["out"]["ret"] == g["ref"]["feasible"])
                if "expected_trace" in pl:
                    print("  trace as predicted:", g["out"]["trace"] == pl["expected_trace"])
    elif kind in ("nnls", "fit"):
        line = pl["line"] if isinstance(pl["line"], str) else (pl["line"][0] if pl["line"] else "")
        so, se, hung = run_end_to_end(exe, kind, [line], 120)
        res, cur = parse_e2e(so, kind + "begin", kind + "end")
        print("  hang:", hung, " results:", {k: [(t[0], hash(t[2]) & 0xffff) for t in v] for k, v in res.items()})
    elif kind == "model":
        print(model_requests(mexe, [pl["request"]])[pl["request"].split()[0]]["info"])
    else:
        print("  nothing executable in this replay; payload:", json.dumps(pl)[:1000])

def run(info, out):
    tier, seed = info["tier"], info["seed"]
    rng = Rng(seed).fork("C12")
    exe, mexe = build_all()
    cov = {}
    if info.get("replay"):
        replay(info["replay"], exe, mexe)
        return {"evaluations": 1, "replayed": info["replay"]}
    boost = 1 if info["proof_ok"] else 10
    thorough = tier == "thorough"

    # 1. corpus first: minimised schedules of defects already found (prefix schedules; must now terminate correctly)
    corpus = sorted(glob.glob(os.path.join(VERIF, "corpus", "C12", "*.json")))
    for path in corpus:
        c = json.load(open(path))
        g = run_sched_cases(exe, [c["line"]]).get(c["line"].split()[1], {})
        payload = {"kind": "sched", "line": c["line"], "corpus": os.path.basename(path)}
        if g.get("fail") or g.get("hang"):
            out.violation(c["signature"], "corpus regression: " + c["what"] + " — " + (g.get("fail") or "hang")[:200], payload)
        elif g.get("out") and (g["out"]["x"] != g["ref"]["x"] or g["out"]["ret"] != g["ref"]["feasible"]):
            out.violation("C12:walk_descents:result", "corpus case: wrong result", payload)
        if g.get("out"):
            check_commons(g["out"], int(c["line"].split()[3]), payload, out, cov, cov.setdefault("_seen_commons", set()))
    cov["corpus_cases"] = len(corpus)

    # 2. forced schedules from the model
    #    (a) exhaustive small configurations: one schedule per reachable transition of the model
    small = [(1, 0), (1, 1), (2, 0), (2, 1), (2, 2), (3, 1)] + ([(3, 2), (3, 4), (1, 2), (2, 3), (4, 2)] if thorough else [])   # (N, negatives) -> n_alpha = 2 + negatives
    datas, plan = [], []
    def tied(d):
        x = [dfrom(int(h, 16)) for h in d["x"]]; xF = [dfrom(int(h, 16)) for h in d["xF"]]
        al = [x[f] / (x[f] - xF[k]) for k, f in enumerate(d["F"]) if xF[k] < 0 and x[f] > 0]
        return len(al) - len(set(al))
    small = [c + (False,) for c in small] + [(2, 2, True), (3, 2, True), (2, 3, True)] + ([(3, 3, True), (4, 2, True), (3, 4, True)] if thorough else [])
    for (N, nneg, ties) in small:
        d = gen_data(rng, nF=max(1, nneg + rng.below(2)), nneg=nneg, ties=ties)
        # make sure all the negatives count: x > 0 on F
        for k, fi in enumerate(d["F"]):
            if dfrom(int(d["x"][fi], 16)) == 0.0:
                d["x"][fi] = H(0.5 + 0.1 * k)
        datas.append(d)
        cap = (8000 if thorough else 1500) * boost
        plan.append((len(datas) - 1, N, "cover %d %d" % (cap, rng.below(1 << 20))))
    #    (b) random data, N in 1..4 and beyond the number of trial steps, random walks with spurious wake-ups
    nrand = (80 if thorough else 24) * boost
    for k in range(nrand):
        d = gen_data(rng)
        datas.append(d)
        N = rng.choice([1, 1, 2, 2, 3, 3, 4, 5, 9])
        plan.append((len(datas) - 1, N, "rand %d %d %d" % (40 if thorough else 16, rng.below(1 << 20), rng.choice([0, 5, 15]))))
        if tied(d):         # repeated trial steps: every way the copies can fall into one block or into neighbouring blocks
            for N2 in (1, 2, 3, 4):
                if N2 != N:
                    plan.append((len(datas) - 1, N2, "rand %d %d %d" % (8 if thorough else 4, rng.below(1 << 20), rng.choice([0, 5]))))
    cov["cases_with_repeated_trial_steps"] = sum(1 for d in datas if tied(d))
    #    (b') MANY trial steps and MANY workers: 30..40 coefficients reaching zero (n_alpha up to 42) under 31, 32, 33 and 40 workers —
    #    worker indices beyond 31 receive a trial only when both are large (any per-worker bookkeeping wider than a machine word,
    #    any block arithmetic on n_alpha / n_threads is exercised here)
    nbig0 = len(datas)
    for k in range(2 if not thorough else 6):
        nFb = rng.choice([30, 33, 36, 40])
        d = gen_data(rng, nF=nFb, nneg=nFb, ties=(k % 2 == 1))
        for kk, fi in enumerate(d["F"]):
            if dfrom(int(d["x"][fi], 16)) == 0.0:
                d["x"][fi] = H(0.5 + 0.01 * kk)
        datas.append(d)
        for N in ((32, 33) if not thorough else (31, 32, 33, 40)):
            plan.append((len(datas) - 1, N, "rand 2 %d 0" % rng.below(1 << 20)))
    cov["cases_with_many_trial_steps"] = len(datas) - nbig0
    refs = check_forced(exe, mexe, datas, plan, out, cov)
    #    (c) termination bound against the exact longest schedule of small configurations (model only)
    check_termination_bound(mexe, [(1, 2), (1, 3), (1, 4), (2, 2), (2, 3), (2, 4), (2, 5), (3, 3), (3, 4)] + ([(3, 6), (4, 4), (4, 5)] if thorough else []), out, cov)

    # 3. the property itself on free-running threads, every thread count
    nfree = check_free(exe, datas[len(small):][: (60 if thorough else 16) * boost] + datas[:len(small)], THREADS, 6 if thorough else 3, out, cov)
    nfree += check_free(exe, datas[nbig0:], [1, 31, 32, 33, 48], 3 if thorough else 2, out, cov, tag="freebig")
    ne2e = check_thread_counts(exe, rng, (40 if thorough else 8) * boost, (20 if thorough else 3), out, cov,
                               threads=(list(range(1, 33)) if thorough else THREADS))
    # 4. TSan, free-running (thorough)
    ntsan = check_tsan(rng, datas[len(small):][:12], out, cov) if thorough else 0
    # 5. ASan/UBSan/LSan, free-running (thorough)
    ntsan += check_asan(rng, datas[len(small):][:12], out, cov) if thorough else 0

    traces = cov.pop("_traces", set()); hist = cov.pop("_hist", {}); cov.pop("_seen_commons", None)
    chosen_hist = collections.Counter()
    for k, r in refs.items():
        if "ref" in r:
            chosen_hist["n_alpha=%s chosen=%s feasible=%s" % (r["ref"]["na"][0], r["ref"]["chosen"][0], r["ref"]["feasible"][0])] += 1
    sample = sorted(traces, key=len)[:1] + sorted(traces, key=len)[-1:]
    cov.update({
        "evaluations": cov.get("forced_schedules", 0) + nfree + ne2e + ntsan,
        "distinct_nontrivial": len(traces),
        "rule": "a forced schedule is non-trivial when it runs the real walk_descents to completion through at least one block with every pthread "
                "operation chosen by the model; distinct = distinct operation traces",
        "samples": [s[:600] for s in sample],
        "traces_validated_against_impl": cov.get("forced_schedules", 0),
        "input_distribution": {"configurations": dict(hist), "line_search_outcomes": dict(chosen_hist), "thread_counts_free": THREADS},
    })
    cov["sched_batch_seconds_max"] = max(SCHED_BATCH_SECONDS) if SCHED_BATCH_SECONDS else 0
    cov["sched_batches_slow_but_not_hung"] = len(SLOW_BATCHES)
    return cov
