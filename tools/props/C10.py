"""C10 — a monotonic fit is non-decreasing along the requested dimension.

Pipeline of one run (DESIGN §4 C10):
  generator -> case file -> real code: harness/C10_harness.cpp runs splinetable::fit(..., monodim) and the unconstrained fit of
  the same data; the linker's --wrap captures (no source change) the T-basis normal system handed to nnls_normal_block3 and
  the increment vector the REAL solver returns (run verbose: its own trace shows a max_iter exit), and the B-basis normal
  system handed to cholesky_solve; real ndsplineeval with the derivative bit of monodim at grid/knot points.
Checks per case:
  (i)   ORACLE, exact: returned float coefficients non-decreasing along monodim (float comparison, no tolerance);
  (ii)  ORACLE, exact: every increment returned by the real nnls_normal_block3 is >= 0 (and not NaN);
  (iii) ORACLE: exact rational derivative along monodim of the returned table (Cox-de Boor + de Boor's derivative formula,
        oracle_exact.py) >= 0 exactly at every point of the fully supported region that is probed, and the real
        ndsplineeval derivative >= -(measured rounding bound);
  (iv)  ORACLE: when the exact solution of the captured T-basis normal equations is strictly positive (constraint inactive),
        the NNLS increments equal it and the monotone coefficients equal the unconstrained fit's, within a tolerance
        scaled by the exactly bounded ||A^-1||;
  (v)   CORRESPONDENCE, bitwise: extracted MonoModel.glam_backtransform (float store + cumulative-sum loop with the code's
        index arithmetic) applied to the captured NNLS solution == the coefficients the real fit returned;
  (vi)  CORRESPONDENCE of C10_tsystem_is_congruence / C10_tsystem_operator with the code (after fix F28_1 of D28):
        (vi-a) for ndim >= 2, every dimension k with non-zero smoothing: calc_penalty(k, monodim) == L' calc_penalty(k, none) L
               (both called directly), (vi-b) the captured T-basis system == L' A L, L' r with (A, r) the captured B-basis system of
               the unconstrained fit (data term and EVERY penalty term) and L the cumulative-sum operator along monodim; exact
               rationals, tolerance 2^-36 * scale. A disagreement that has the exact form of the old defect
               (A_T = L'(A - P_other)L + P_other, or calc_penalty(k, monodim) == calc_penalty(k, none) for k != monodim) is reported
               under the old finding's signature C10:inactive:other-dimension-penalty-applied-to-increments (status fixed: hard
               violation); corpus/C10/k1_other_dim_penalty.json (the old witness) runs first on every invocation."""
import os, sys, json, time, hashlib, subprocess, math, select, threading
from fractions import Fraction as Fr
from multiprocessing import Pool
from multiprocessing.pool import ThreadPool
from common import *
from oracle_exact import PointSpec
from C09 import solve_certified

PROPERTIES_FILE = "Properties_C10"
TRANSLATORS = ["glam.py"]      # the index arithmetic of glam.c that FitModel transcribes must be present in the recognised form
ASSUMPTIONS = [
    "nnls_normal_block3 is represented by NnlsModel.block3 (C11): x >= 0 on every exit is C11_block3_nonneg; here the real solver's output is checked >= 0 exactly on every captured system",
    "the IEEE theorem (C10_cumsum_monotone_ieee) is about Flocq's Bplus on binary32 with round-to-nearest-even; that gcc's `float += float` (SSE addss, FLT_EVAL_METHOD 0) is that operation is assumed; the extracted model is executed with binary64 additions re-rounded to binary32 (innocuous double rounding for one addition, 53 >= 2*24+2) and compared bitwise with the real coefficients",
    "no-overflow / no-NaN are explicit hypotheses of the rounding theorems (finite results); generated data stay far from the binary32 range limits",
    "CHOLMOD's ssmult/transpose/tril/copy/add are the mathematical matrix operations on dense list matrices (C10_tspline_basis, MonoFitModel.fit_system_mono; the symmetric-triangle storage that calc_penalty switches off while two Kronecker factors are non-diagonal is not modelled); tied by check (vi) on calc_penalty's output and on the captured systems",
    "C10_inactive_fit_returns_unconstrained is about exact arithmetic, an exact KKT point and the back-transformation written as matvec Lbig; that matvec Lbig is the cumulative-sum loop for every shape is not proved (evaluated on an instance in Properties_C10.v, C10_tspline_basis in one dimension; the python oracle of (vi) uses cumulative/suffix sums along monodim and agrees with the code), positive definiteness of the T-basis matrix is a hypothesis (certified exactly per case in (iv))",
    "surface monotonicity is stated through de Boor's derivative formula (BSpline.dBfun); that the formula is the derivative is C02_piece_derivative_formula / C02_formula_is_the_derivative",
    "knot vectors with distinct knots (repeated knots, which the fitter's bspline() handles since fix 07dbb30, are exercised by C09 and C17, not here); orders 1..4; well-posed (certified nonsingular) normal equations for the inactive-constraint check",
    "fits are run with OMP_NUM_THREADS=1/GOTO_NUM_THREADS=1 under a progress watchdog (walk_descents can lose a wake-up: C12/D7)",
]
TRUSTED_EXTRA = [
    "Coq standard library real-number axioms (ClassicalDedekindReals.sig_forall_dec, sig_not_dec, FunctionalExtensionality.functional_extensionality_dep, Classical_Prop.classic) under C10_cumsum_monotone_ieee, C10_flocq_round_laws and C10_cumsum_monotone_rd32 only (Flocq 4 binary32); every other C10 theorem is closed under the global context",
    "Flocq (IEEE754.BinarySingleNaN: Bplus_correct; Core: round_le, round_generic, generic_format_B2R)",
    "GNU ld --wrap=nnls_normal_block3 / --wrap=cholesky_solve to observe the normal systems and the NNLS solution of the real fit without changing the library",
    "tools/props/C10.py: exact solve/inverse bound (C09.solve_certified), oracle_exact.py (Cox-de Boor on python fractions)",
    "extract/mono_driver.ml: OCaml native floats as Arith closures (binary32 by re-rounding)",
]

U53 = Fr(1, 2 ** 53)
U24 = Fr(1, 2 ** 24)
KINDS = ["noisy_up", "decreasing", "oscillating", "monospline", "monospline", "step", "negative", "constant", "noisy_flat"]

# ------------------------------------------------------------------------------------------------
def build_impl():
    return build_harness("C10_harness", ["C10_harness.cpp"], flavour="faithful", fitter=True,
                         libs=["-Wl,--wrap=nnls_normal_block3", "-Wl,--wrap=cholesky_solve"])

def case_text(c):
    s = ["case %s %d %d %d" % (c["id"], len(c["dims"]), c["monodim"], c.get("flags", 0))]
    for d in c["dims"]:
        s.append("%d %d %s %d %s %d %s" % (d["order"], d["porder"], hexd(d["smooth"]), len(d["knots"]), " ".join(hexd(k) for k in d["knots"]),
                                            len(d["coords"]), " ".join(hexd(x) for x in d["coords"])))
    s.append(str(len(c["entries"])))
    for idx, v, w in c["entries"]:
        s.append("%s %s %s" % (" ".join(str(i) for i in idx), hexd(v), hexd(w)))
    s.append(str(len(c["points"])))
    for p in c["points"]:
        s.append(" ".join(hexd(x) for x in p))
    return "\n".join(s) + "\n"

def case_hash(c):
    return hashlib.sha256(case_text(dict(c, id="x")).encode()).hexdigest()[:16]

def nspl_of(d):
    return len(d["knots"]) - d["order"] - 1

def exact_bspline(kn, x, i, n, left=False):
    """Cox-de Boor (0/0 := 0), right-continuous or (left) left-continuous. bsplinebasis() - from which glam.c builds the T-spline
    basis of the monotonic dimension (bsplinebasis * tril) - takes left = (x >= knots[nsplines]) since fix F30_1, like pointwise
    evaluation. On the strictly increasing knots of this check (orders >= 1) both sides give the same value at every point
    (C17_basis_unchanged_on_strict_knots); the side is passed anyway so that this is the specification's basis."""
    if n == 0:
        if left:
            return Fr(1) if kn[i] < x <= kn[i + 1] else Fr(0)
        return Fr(1) if kn[i] <= x < kn[i + 1] else Fr(0)
    r = Fr(0)
    d1 = kn[i + n] - kn[i]
    if d1 != 0:
        r += (x - kn[i]) / d1 * exact_bspline(kn, x, i, n - 1, left)
    d2 = kn[i + n + 1] - kn[i + 1]
    if d2 != 0:
        r += (kn[i + n + 1] - x) / d2 * exact_bspline(kn, x, i + 1, n - 1, left)
    return r

def gen_dim(rng, maxspl, is_mono):
    order = rng.choice([1, 2, 2, 3, 3, 4]) if is_mono else rng.choice([1, 1, 2, 2, 3, 4])
    if order + 1 > maxspl:
        order = max(1, maxspl - 1)
    nspl = rng.rint(order + 1, max(maxspl, order + 1))
    nk = nspl + order + 1
    t = rng.rint(-12, 12) / 4.0
    style = rng.choice(["uniform", "irregular", "irregular"])
    step0 = rng.choice([0.5, 1.0, 2.0])
    knots = []
    for i in range(nk):
        knots.append(t)
        t += step0 if style == "uniform" else rng.choice([0.25, 0.5, 0.75, 1.0, 1.25, 2.0, 3.5])
    lo, hi = knots[order], knots[nspl]
    g = 32
    pts = []
    for j in range(nspl):      # Schoenberg-Whitney: one abscissa inside the support of every basis function, in the full-support range
        a, b = max(knots[j], lo), min(knots[j + order + 1], hi)
        na, nb = int(math.ceil(a * g)), int(math.floor(b * g))
        cands = [k / g for k in range(na, nb + 1) if a <= k / g < b and (k / g) not in pts]
        inner = [x for x in cands if x > a] or cands
        if inner:
            pts.append(rng.choice(inner))
    want = rng.rint(len(pts), len(pts) + rng.choice([0, 2, 4, 8]))
    tries = 0
    while len(pts) < want and tries < 60:
        tries += 1
        cls = rng.choice(["full", "full", "full", "knot", "margin"])
        if cls == "full":
            x = rng.rint(int(math.ceil(lo * g)), int(math.floor(hi * g))) / g
            if not (lo <= x < hi):
                continue
        elif cls == "knot":
            x = rng.choice(knots)          # any knot: those at/above knots[nsplines] and the last knot included (left-continuous basis there)
        else:
            x = rng.rint(int(knots[0] * g), int(knots[-1] * g) - 1) / g
        if x in pts:
            continue
        pts.append(x)
    pts.sort()
    porder = rng.rint(1, min(order, 3)) if rng.chance(0.85) else 0
    smooth = rng.choice([0.0, 2.0 ** -10, 2.0 ** -3, 1.0, 1.0, 2.0 ** 6])
    return {"order": order, "porder": porder, "smooth": smooth, "knots": knots, "coords": pts}

def gen_case(rng, cid, big=False):
    ndim = rng.choice([1, 1, 2, 2, 2, 3, 3])
    monodim = rng.rint(0, ndim - 1)
    cap = {1: 14 if big else 10, 2: 7 if big else 6, 3: 5 if big else 4}[ndim]
    while True:
        dims = [gen_dim(rng, cap, i == monodim) for i in range(ndim)]
        ncoef = 1
        for d in dims:
            ncoef *= nspl_of(d)
        if ncoef <= (220 if big else 130):
            break
    kind = rng.choice(KINDS)
    sparse = rng.choice([1.0, 1.0, 0.8, 0.5])
    return fill_case(rng, cid, dims, monodim, kind, sparse, big)

def fill_case(rng, cid, dims, monodim, kind, sparse, big=False, amp_override=None):
    """data, weights and probe points of a case whose dimensions are fixed (shared by the random and the structured family)"""
    ndim = len(dims)
    if all(d["smooth"] == 0.0 for d in dims) and sparse < 1.0:
        dims[monodim]["smooth"] = 2.0 ** -3            # keep the problem well-posed when cells are missing
    shape = [len(d["coords"]) for d in dims]
    # values
    amp = rng.choice([1.0, 1.0, 8.0, 1000.0, 2.0 ** -10])
    noise = rng.choice([0.0, 0.05, 0.3, 1.0])
    if amp_override is not None:
        amp = amp_override
    if kind == "monospline":
        # coefficients with non-negative increments along monodim (first one included), exact 1-D bases
        na = [nspl_of(d) for d in dims]
        coef = {}
        def fill(prefix):
            if len(prefix) == ndim:
                return
        import itertools
        others = [range(n) if i != monodim else [0] for i, n in enumerate(na)]
        zero_ok = rng.chance(0.3)
        for base in itertools.product(*others):
            acc = 0.0
            for j in range(na[monodim]):
                acc += rng.choice([0.0, 0.125, 0.5, 1.0, 2.0] if zero_ok else [0.125, 0.25, 0.5, 1.0, 2.0])
                m = list(base); m[monodim] = j
                coef[tuple(m)] = acc
        bas = []
        for d in dims:
            kn = [Fr(k) for k in d["knots"]]
            bas.append([[float(exact_bspline(kn, Fr(x), i, d["order"], Fr(x) >= kn[nspl_of(d)])) for i in range(nspl_of(d))] for x in d["coords"]])
    entries = []
    import itertools
    for idx in itertools.product(*[range(s) for s in shape]):
        if not rng.chance(sparse):
            continue
        xm = dims[monodim]["coords"][idx[monodim]]
        lo, hi = dims[monodim]["knots"][0], dims[monodim]["knots"][-1]
        u = (xm - lo) / (hi - lo)
        other = sum(0.37 * (k + 1) * idx[k] for k in range(ndim) if k != monodim)
        if kind == "noisy_up":
            v = 3 * u + 0.5 * math.sin(other)
        elif kind == "decreasing":
            v = 2 - 3 * u + 0.25 * math.cos(other)
        elif kind == "oscillating":
            v = math.sin(9 * u + other) + 0.5
        elif kind == "step":
            v = 1.0 if u > 0.5 else (0.0 if rng.chance(0.5) else 2.0)
        elif kind == "negative":
            v = -1.0 - u
        elif kind == "constant":
            v = 1.5
        elif kind == "noisy_flat":
            v = 1.0
        elif kind == "increasing-convex":
            v = 0.5435 + xm * xm + 0.01 * other          # smooth and increasing on the data range: the constraint ends up inactive
        else:
            v = 0.0
            for m, cm in coef.items():
                pr = cm
                for k in range(ndim):
                    pr *= bas[k][idx[k]][m[k]]
                    if pr == 0.0:
                        break
                v += pr
        if kind not in ("monospline", "constant", "increasing-convex") or (kind == "monospline" and rng.chance(0.15) and noise and False):
            v += noise * (rng.unit() - 0.5)
        v *= amp
        w = rng.choice([1.0, 1.0, 1.0, 0.5, 2.0, 4.0, 0.25]) if rng.chance(0.5) else 1.0
        if rng.chance(0.04):
            w = 0.0
        entries.append([list(idx), float(v), float(w)])
    if not entries:
        entries.append([[0] * ndim, amp, 1.0])
    rng.shuffle(entries)
    # probe points in the fully supported box: knots, abscissae, random, the upper end
    # (a table with fewer than 2*order+2 knots in some dimension has an EMPTY fully supported region: nothing to probe; the
    #  coefficient statement (i), the solver statements and the system correspondence are checked all the same)
    evaluable = all(d["knots"][d["order"]] < d["knots"][nspl_of(d)] for d in dims)
    pts = []
    for e in range((10 if not big else 14) if evaluable else 0):
        p = []
        for d in dims:
            o, na_ = d["order"], nspl_of(d)
            lo, hi = d["knots"][o], d["knots"][na_]
            cls = rng.choice(["knot", "grid", "rand", "rand", "hi", "lo", "near"])
            if cls == "knot":
                x = rng.choice(d["knots"][o:na_ + 1])
            elif cls == "grid":
                cand = [x for x in d["coords"] if lo <= x <= hi]
                x = rng.choice(cand) if cand else lo
            elif cls == "hi":
                x = hi
            elif cls == "lo":
                x = lo
            elif cls == "near":
                k = rng.choice(d["knots"][o:na_ + 1])
                x = nextafter(k, hi) if rng.chance(0.5) else nextafter(k, lo)
                x = min(max(x, lo), hi)
            else:
                x = lo + (hi - lo) * rng.unit()
            p.append(x)
        pts.append(p)
    return {"id": cid, "monodim": monodim, "dims": dims, "entries": entries, "points": pts, "kind": kind, "flags": 0,
            "sparse": sparse, "amp": amp, "noise": noise}

# ------------------------------------------------------------------------------------------------
# the STRUCTURED family (round 3).  The random family draws every axis independently (knots and abscissae from large sets: two axes
# are never the same), always with at least order+1 basis functions and as many abscissae.  Classes at which the code splits cases
# and that it therefore never produced:
#   * glamfit_complex builds one basis / box product per axis and converts ONLY the monotonic one to T-splines: what if another axis
#     has the very same order, knots and abscissae (twin axes - the common "square table")?  monodim the first / the second of the pair /
#     the third axis; near-twins (one knot, one abscissa, the order differs) as the negative control;
#   * the back-transformation's strides stride1/stride2 and the loop `for j = 1 .. n_monodim-1' with n_monodim = 1 (no iteration) or 2,
#     other axes of length 1 (stride factors 1), calc_penalty / kronecker_product with 1x1 and 2x2 factors, penalty order = nsplines
#     (difference matrix without rows), cholmod_tril(1);
#   * a data grid of length 1 in some dimension; very unequal axis lengths (mixed-radix walks of slicemultiply and of the
#     cumulative sum).
# The theorems (C10_backtransform_spec, C10_cumsum_monotone*, C10_tsystem_is_congruence) hold for every shape; the extracted model
# (glam_backtransform) is run on all of these.  A table with an axis of fewer than 2*order+2 knots cannot be evaluated (empty fully
# supported region): no derivative probes there, everything else is compared.
from C09 import distinct_knots, pick_coords

def dim_fixed(rng, order, nspl, porder, smooth, npts, plain=False):
    knots = distinct_knots(rng, nspl + order + 1)
    return {"order": order, "porder": porder, "smooth": smooth, "knots": knots, "coords": pick_coords(rng, knots, order, nspl, npts, plain=plain)}

def filler_dim(rng, maxspl):
    order = rng.choice([1, 1, 2, 2, 3])
    nspl = rng.rint(order + 1, max(maxspl, order + 1))
    porder = rng.rint(0, min(order, 3))
    return dim_fixed(rng, order, nspl, porder, rng.choice([0.0, 2.0 ** -10, 2.0 ** -3, 1.0, 2.0 ** 6]), nspl + rng.choice([0, 1, 3]), plain=True)

NONZERO_SMOOTH = [2.0 ** -10, 2.0 ** -3, 1.0, 1.0, 2.0 ** 6]
POSITIONS = [(1, 0), (2, 0), (2, 1), (3, 0), (3, 1), (3, 2)]

def struct_plan(rng, tier):
    plan = []
    # twin axes: every pair, the monotonic dimension the first / the second of the pair / the third axis
    roles = [(2, (0, 1), 0), (2, (0, 1), 1)]
    for pair in ((0, 1), (0, 2), (1, 2)):
        for md in (0, 1, 2):
            roles.append((3, pair, md))
    for nd, pair, md in roles:
        # exact twins three times: data that make the constraint ACTIVE (first sentence at stake), data from a spline with positive
        # increments and (nearly) no smoothing, which leave it INACTIVE (second sentence at stake), any data; near-twins as the control
        for near, kinds in ((None, ["decreasing", "negative", "oscillating", "step"]), (None, ["monospline!"]), (None, KINDS),
                            ("knot", KINDS), ("abscissa", KINDS), ("order", KINDS)):
            plan.append({"cls": "twin", "ndim": nd, "pair": pair, "monodim": md, "near": near, "kinds": kinds})
    # axes with one and with two basis functions: every legal (order, penalty order), zero / non-zero smoothing; the axis position
    # and whether it is the monotonic one rotate (quick) or are enumerated (thorough)
    combos = []
    for nspl in (1, 2):
        for order in (1, 2, 3):
            for porder in range(0, min(order, nspl) + 1):
                for sm in (False, True):
                    combos.append((nspl, order, porder, sm))
    places = [(1, 0, True)] + [(nd, pos, mono) for nd, pos in POSITIONS[1:] for mono in (True, False)]
    shift = rng.below(len(places))
    for q, (nspl, order, porder, sm) in enumerate(combos):
        pl = places if tier != "quick" else [places[(shift + 5 * q + r * 2) % len(places)] for r in range(6)]
        for nd, pos, mono in pl:
            plan.append({"cls": "small-axis", "nspl": nspl, "order": order, "porder": porder, "smooth_on": sm, "ndim": nd, "pos": pos, "mono": mono})
    for nd, pos in POSITIONS:
        for mono in ((True,) if nd == 1 else (True, False)):
            for nspl in (1, 2):
                plan.append({"cls": "single-abscissa", "nspl": nspl, "ndim": nd, "pos": pos, "mono": mono})
    for nd, pos in POSITIONS[1:]:
        for mono in (True, False):
            plan.append({"cls": "unequal", "short": 1 + (pos + nd + mono) % 2, "ndim": nd, "pos": pos, "mono": mono})
    # a LONG monotonic axis (60..110 basis functions, several of them without data under them, penalty order >= 2): the sizes at which
    # the solver's factor is modified row by row instead of being recomputed, and coefficients re-enter the free set several at a time
    for q in range(3 if tier == "quick" else 10):
        plan.append({"cls": "long-mono", "ndim": 1 if q % 3 != 2 else 2, "pos": 0 if q % 2 == 0 else (q % 3 == 2) * 1, "mono": True,
                     "nlong": [70, 61, 96, 110, 64, 83, 100, 75, 90, 66][q]})
    return plan

def gen_case_struct(rng, cid, desc):
    nd = desc["ndim"]
    cap = {1: 6, 2: 5, 3: 3}[nd]
    dims = [filler_dim(rng, cap) for _ in range(nd)]
    cls = desc["cls"]
    kind = rng.choice(KINDS)
    amp_override = None
    if cls == "twin":
        i, j = desc["pair"]
        monodim = desc["monodim"]
        kind = rng.choice(desc["kinds"])
        order = rng.choice([1, 1, 2, 2, 3]) if desc["kinds"] != ["monospline!"] else rng.choice([1, 1, 2])
        nspl = rng.rint(2, 5 if nd == 2 else 3)
        a = dim_fixed(rng, order, nspl, rng.rint(0, min(order, nspl, 3)), rng.choice([0.0, 2.0 ** -10, 2.0 ** -3, 1.0]), nspl + rng.choice([0, 1, 2, 4]), plain=True)
        b = json.loads(json.dumps(a))
        near = desc["near"]
        if near == "knot":
            kn = b["knots"]
            q = rng.below(len(kn))
            lo = kn[q - 1] if q > 0 else kn[q] - 1.0
            hi = kn[q + 1] if q + 1 < len(kn) else kn[q] + 1.0
            kn[q] = rng.choice([(lo + kn[q]) / 2, (kn[q] + hi) / 2, nextafter(kn[q], hi)])      # still sorted and distinct
        elif near == "abscissa":
            q = rng.below(len(b["coords"]))
            b["coords"][q] = rng.choice([nextafter(b["coords"][q], b["knots"][-1] + 1.0), b["coords"][q] + 1.0 / 64])
        elif near == "order":
            b["order"] = order + 1 if order < 3 else order - 1            # same knots and grid, another order
            b["porder"] = min(b["porder"], b["order"], nspl_of(b))
            if nspl_of(b) < 1:
                b["order"] = order
        if rng.chance(0.5):
            b["porder"] = rng.rint(0, min(b["order"], nspl_of(b), 3))
            b["smooth"] = rng.choice([0.0, 2.0 ** -3, 1.0])
        dims[i], dims[j] = a, b
        if kind == "monospline!":
            # values well above the solver's absolute exit tolerance, so that "constraint inactive" can be certified
            kind = "monospline"
            amp_override = rng.choice([8.0, 1000.0])
            for d in dims:
                d["smooth"] = rng.choice([0.0, 0.0, 2.0 ** -10])
    else:
        pos = desc["pos"]
        monodim = pos if desc["mono"] else rng.choice([k for k in range(nd) if k != pos])
        if cls == "small-axis":
            sm = rng.choice(NONZERO_SMOOTH) if desc["smooth_on"] else 0.0
            nspl = desc["nspl"]
            dims[pos] = dim_fixed(rng, desc["order"], nspl, desc["porder"], sm, rng.choice([1, nspl, nspl + 1, nspl + 3]), plain=True)
        elif cls == "single-abscissa":
            nspl = desc["nspl"]
            order = rng.choice([1, 2, 3])
            dims[pos] = dim_fixed(rng, order, nspl, rng.rint(0, 1), rng.choice(NONZERO_SMOOTH) if nspl > 1 else rng.choice([0.0] + NONZERO_SMOOTH), 1, plain=True)
        elif cls == "long-mono":
            order = rng.choice([2, 2, 3, 1])
            nlong = desc["nlong"]
            for k in range(nd):
                dims[k] = dim_fixed(rng, 1, rng.choice([1, 2]), 0, rng.choice([0.0, 2.0 ** -3]), rng.rint(1, 2), plain=True)
            nk = nlong + order + 1
            a, b = -0.25, 1.25
            knots = [a + (b - a) * i / (nk - 1) for i in range(nk)]
            lo, hi = rng.choice([(0.0, 1.0), (0.0, 1.0), (0.1, 0.8), (-0.25, 1.0)])
            npts = rng.choice([150, 200, 120])
            coords = sorted(set(lo + (hi - lo) * (i + rng.choice([0.0, 0.5, rng.unit()])) / npts for i in range(npts)))
            dims[pos] = {"order": order, "porder": min(order, rng.choice([2, 2, 1, 3])), "smooth": rng.choice([2.0 ** -20, 2.0 ** -10, 2.0 ** -3, 1.0]),
                         "knots": knots, "coords": coords}
            kind = rng.choice(["monospline", "increasing-convex", "increasing-convex", "increasing-convex"] + KINDS[:3])
            if kind in ("monospline", "increasing-convex"):
                # values far above the solver's ABSOLUTE exit tolerance (and data inside [0, 1], where x^2 increases), so that
                # "constraint inactive" can be certified in spite of the conditioning of a long axis
                amp_override = rng.choice([1000.0, 1.0e6, 1.0e9])
                if lo < 0.0:
                    coords = sorted(set(abs(x) for x in coords))
                dims[pos]["coords"] = coords
        elif cls == "unequal":
            for k in range(nd):
                o = rng.choice([1, 2])
                dims[k] = dim_fixed(rng, o, desc["short"], rng.rint(0, min(o, desc["short"])), rng.choice([0.0, 2.0 ** -3, 1.0]), rng.rint(1, 3), plain=True)
            order = rng.choice([1, 2, 3])
            nlong = rng.rint(10, 14) if nd == 2 else rng.rint(8, 10)
            dims[pos] = dim_fixed(rng, order, nlong, rng.rint(0, order), rng.choice([0.0, 2.0 ** -10, 2.0 ** -3, 1.0]), nlong + rng.rint(0, 4), plain=True)
    sparse = rng.choice([1.0, 1.0, 1.0, 0.8])
    if all(d["smooth"] == 0.0 for d in dims) and sparse < 1.0:
        sparse = 1.0
    c = fill_case(rng, cid, dims, monodim, kind, sparse, amp_override=amp_override)
    c["family"] = cls
    return c

def axis_classes(c):
    """the structural classes a case falls into, MEASURED on the case (not taken from the plan)"""
    dims, md = c["dims"], c["monodim"]
    nd = len(dims)
    ns = [nspl_of(d) for d in dims]
    out = []
    for k, d in enumerate(dims):
        pos = "only" if nd == 1 else "first" if k == 0 else "last" if k == nd - 1 else "middle"
        role = "monotonic" if k == md else "other"
        if ns[k] <= 2:
            out.append("%s axis with %d basis function%s, %s position, penalty order %d%s, %s smoothing" % (
                role, ns[k], "" if ns[k] == 1 else "s", pos, d["porder"], " (= nsplines)" if d["porder"] == ns[k] else "", "non-zero" if d["smooth"] != 0.0 else "zero"))
        if len(d["coords"]) == 1:
            out.append("data grid of length 1 along %s %s axis" % ("the" if k == md else "an", role))
        if len(d["knots"]) < 2 * d["order"] + 2:
            out.append("axis with fewer than 2*order+2 knots (table not evaluable: no derivative probes)")
    for i in range(nd):
        for j in range(i + 1, nd):
            a, b = dims[i], dims[j]
            where = "monodim = first of the pair" if md == i else "monodim = second of the pair" if md == j else "monodim = the third axis"
            if a["order"] == b["order"] and a["knots"] == b["knots"] and a["coords"] == b["coords"]:
                out.append("twin axes (same order, knots, abscissae), %s, ndim %d" % (where, nd))
            elif len(a["knots"]) == len(b["knots"]) and len(a["coords"]) == len(b["coords"]) and a["order"] == b["order"] and \
                    sum(x != y for x, y in zip(a["knots"], b["knots"])) + sum(x != y for x, y in zip(a["coords"], b["coords"])) == 1:
                out.append("near-twin axes (one %s differs), %s" % ("knot" if a["knots"] != b["knots"] else "abscissa", where))
            elif a["knots"] == b["knots"] and a["coords"] == b["coords"]:
                out.append("near-twin axes (same knots and abscissae, order differs), %s" % where)
    if nd >= 2 and max(ns) >= 5 * max(1, min(ns)):
        out.append("very unequal axis lengths (max/min nsplines >= 5), monotonic axis %s" % ("the long one" if ns[md] == max(ns) else "a short one"))
    return out

# ------------------------------------------------------------------------------------------------
def run_impl(exe, cases, timeout=6, restarts=None):
    """Feeds the cases to one harness process and watches for progress; a silent harness (lost wake-up in walk_descents, C12/D7)
    is killed and restarted behind the last finished case; a case that hangs three times or crashes is recorded and stepped over."""
    env = dict(os.environ, OMP_NUM_THREADS="1", GOTO_NUM_THREADS="1", OPENBLAS_NUM_THREADS="1")
    res, bad, tries = {}, [], {}
    todo = list(cases)
    while todo:
        p = subprocess.Popen([exe], stdin=subprocess.PIPE, stdout=subprocess.PIPE, stderr=subprocess.DEVNULL, env=env)
        text = "".join(case_text(c) for c in todo).encode()
        def feed(pp=p, tx=text):
            try:
                pp.stdin.write(tx); pp.stdin.close()
            except (BrokenPipeError, OSError, ValueError):
                pass
        th = threading.Thread(target=feed, daemon=True); th.start()
        cur, lines, hung = None, [], False
        fd = p.stdout.fileno()
        buf = b""
        while True:
            r, _, _ = select.select([fd], [], [], timeout)
            if not r:
                hung = True; p.kill(); break
            chunk = os.read(fd, 1 << 16)
            if not chunk:
                break
            buf += chunk
            while b"\n" in buf:
                raw, buf = buf.split(b"\n", 1)
                ln = raw.decode("ascii", "replace")
                if ln.startswith("BEGIN "):
                    cur = ln.split()[1]; lines = []
                elif ln.startswith("END ") and cur is not None:
                    res[cur] = lines; cur = None
                elif cur is not None:
                    lines.append(ln)
        p.wait()
        rest = [c for c in todo if c["id"] not in res]
        if not rest:
            break
        first = rest[0]["id"]
        if restarts is not None:
            restarts.append((first, "hang" if hung else "exit rc=%s" % p.returncode))
        tries[first] = tries.get(first, 0) + 1
        if tries[first] >= 3 or not hung:
            bad.append((first, "hang" if hung else "crash rc=%s" % p.returncode))
            res[first] = ["_failed %s" % bad[-1][1]]
            rest = rest[1:]
        todo = rest
    return res, bad

def run_impl_parallel(exe, cases, restarts):
    nchunk = max(1, min(NCPU, len(cases) // 4 or 1))
    chunks = [cases[i::nchunk] for i in range(nchunk)]
    with ThreadPool(nchunk) as tp:
        parts = tp.map(lambda ch: run_impl(exe, ch, restarts=restarts), chunks)
    res, bad = {}, []
    for r, b in parts:
        res.update(r); bad += b
    return res, bad

def parse_case_output(lines):
    o = {"trace": [], "evals": {}}
    intrace = False
    for ln in lines:
        if ln == "nnls.trace.begin":
            intrace = True; continue
        if ln == "nnls.trace.end":
            intrace = False; continue
        if intrace:
            o["trace"].append(ln); continue
        tk = ln.split()
        if not tk:
            continue
        if tk[0] == "eval":
            o["evals"][int(tk[1])] = tk[2:]
        else:
            o[tk[0]] = tk[1:]
    return o

def run_model(exe, items):
    """items: (id, monodim, naxes, x hex list) -> {id: [hex floats]}"""
    text = "".join("%s %d %d %s %d %s\n" % (i, md, len(na), " ".join(map(str, na)), len(xs), " ".join(xs)) for i, md, na, xs in items)
    p = subprocess.run([exe], input=text, stdout=subprocess.PIPE, stderr=subprocess.PIPE, text=True, timeout=1800)
    if p.returncode != 0:
        raise RuntimeError("model driver failed: " + p.stderr[-2000:])
    out = {}
    for ln in p.stdout.split("\n"):
        tk = ln.split()
        if tk:
            out[tk[0]] = tk[1:]
    return out

# ------------------------------------------------------------------------------------------------
def strides_of(naxes, monodim):
    s1 = s2 = 1
    for i, n in enumerate(naxes):
        if i < monodim:
            s1 *= n
        elif i > monodim:
            s2 *= n
    return s1, s2

def cums_along(v, naxes, monodim):
    """exact cumulative sum along monodim of a flat row-major vector (the operator L)"""
    s1, s2 = strides_of(naxes, monodim)
    nm = naxes[monodim]
    v = list(v)
    for p in range(len(v)):
        if p % (s2 * nm) >= s2:
            v[p] = v[p] + v[p - s2]
    return v

def sufs_along(v, naxes, monodim):
    """the transpose L': suffix sums along monodim"""
    s1, s2 = strides_of(naxes, monodim)
    nm = naxes[monodim]
    v = list(v)
    for p in range(len(v) - 1, -1, -1):
        if p % (s2 * nm) < s2 * (nm - 1):
            v[p] = v[p] + v[p + s2]
    return v

def fr_hexd(h):
    return Fr(dfrom(int(h, 16)))

def mat_of(tokens):
    n, m = int(tokens[0]), int(tokens[1])
    vals = [dfrom(int(h, 16)) for h in tokens[2:]]
    return [vals[i * m:(i + 1) * m] for i in range(n)]

def analyse(args):
    """everything that needs exact arithmetic, for one case; returns (case id, list of (signature, what, detail), stats)"""
    c, o, model_coef, want_exact = args
    fails, st = [], {}
    nd = len(c["dims"]); md = c["monodim"]
    naxes = [nspl_of(d) for d in c["dims"]]
    n = 1
    for a in naxes:
        n *= a
    s1, s2 = strides_of(naxes, md)
    nm = naxes[md]
    if "_failed" in o:
        st["failed"] = " ".join(o["_failed"])
        return c["id"], fails, st
    mc = o.get("mono.coef")
    if mc is None or mc[0] != "0":
        st["fit_error"] = " ".join(mc or ["no output"])[:200]
        return c["id"], fails, st
    coef_hex = mc[2:]
    coef = [ffrom(int(h, 16)) for h in coef_hex]
    maxiter = any("VARNING" in l for l in o["trace"])
    st["maxiter"] = maxiter
    st["calls"] = int(o.get("mono.calls", ["0"])[0])
    if st["calls"] != 1:
        fails.append(("C10:fit:nnls-not-used", "monotone fit called nnls_normal_block3 %d times (expected once)" % st["calls"], {}))
    xh = o.get("nnls.x", ["NULL"])
    x = None
    if xh[0] != "NULL":
        x = [dfrom(int(h, 16)) for h in xh[1:]]
        if any(v != v for v in x) and "nnls.A" in o:
            # NaN from the solver: outside the property when the normal equations are singular / beyond double precision
            # (the fit problem has no unique minimiser: e.g. fewer data than the null space of the penalty needs); decided exactly
            ATn = [[Fr(v) for v in row] for row in mat_of(o["nnls.A"])]
            zz, _, ninvn, whyn = solve_certified(ATn, [Fr(dfrom(int(h, 16))) for h in o["nnls.r"][1:]])
            illc = zz is not None and max(sum(abs(v) for v in row) for row in ATn) * ninvn * 64 * n * U53 > Fr(1, 1000)
            if zz is None or illc:
                st["illposed_nan"] = whyn or "condition number beyond double precision"
                return c["id"], fails, st
        # (ii) increments >= 0 exactly
        badx = [(i, v) for i, v in enumerate(x) if not (v >= 0.0) or v == math.inf]
        if badx:
            fails.append(("C10:nnls:negative-increment%s" % ("@maxiter" if maxiter else ""),
                          "nnls_normal_block3 returned a negative/NaN/infinite increment x[%d] = %r" % badx[0], {"index": badx[0][0], "value": repr(badx[0][1])}))
        st["n_zero_increments"] = sum(1 for v in x if v == 0.0)
        # (v) model vs code, bitwise
        if model_coef is not None and model_coef != coef_hex:
            k = next((i for i, (a, b) in enumerate(zip(model_coef, coef_hex)) if a != b), -1)
            fails.append(("C10:backtransform:model-vs-code", "coefficients differ from MonoModel.glam_backtransform of the captured NNLS solution at flat index %d: model %s code %s"
                          % (k, model_coef[k] if k >= 0 else "?", coef_hex[k] if k >= 0 else "?"), {"model": model_coef, "code": coef_hex}))
    # (i) coefficients non-decreasing along monodim, exact
    dec = [(p, coef[p - s2], coef[p]) for p in range(n) if p % (s2 * nm) >= s2 and not (coef[p] >= coef[p - s2])]
    nanc = [p for p in range(n) if coef[p] != coef[p]]
    if dec or nanc:
        p0 = dec[0] if dec else (nanc[0], None, None)
        fails.append(("C10:fit:coefficients-decrease-along-monodim",
                      "coefficient at flat index %d (%r) is below its predecessor along dimension %d (%r); ndim=%d naxes=%s" % (p0[0], p0[2], md, p0[1], nd, naxes),
                      {"flat_index": p0[0], "count": len(dec), "nan": len(nanc)}))
    st["strict_steps"] = sum(1 for p in range(n) if p % (s2 * nm) >= s2 and coef[p] > coef[p - s2])
    # (iii) derivative along monodim at the probe points
    orders = [d["order"] for d in c["dims"]]
    knots = [d["knots"] for d in c["dims"]]
    ks = [1 if i == md else 0 for i in range(nd)]
    nev = 0
    finite = all(abs(v) < math.inf for v in coef) and not nanc
    if finite:
        cfr = [Fr(v) for v in coef]
        for e, tk in sorted(o["evals"].items()):
            if tk[0] != "ok":
                fails.append(("C10:eval:point-of-full-support-rejected", "searchcenters rejected a point of the fully supported region", {"point": c["points"][e]}))
                continue
            dv = dfrom(int(tk[1], 16))
            ps = PointSpec(orders, knots, cfr, c["points"][e])
            exact, ab, ufl = ps.spec(ks)
            nev += 1
            if exact < 0:
                fails.append(("C10:surface:exact-derivative-negative", "exact derivative along monodim is %.6g < 0 at %r although ... (see coefficient check)" % (float(exact), c["points"][e]),
                              {"point": c["points"][e], "exact": str(exact)}))
            K = 16 * sum(oo + 3 for oo in orders)
            bound = K * U24 * ab + Fr(1, 2 ** 149) * (1 + 64 * ufl)
            if not (dv == dv) or Fr(dv) < -bound:
                fails.append(("C10:eval:derivative-below-rounding-bound", "ndsplineeval derivative along monodim = %r < -bound (%.3g) at %r; exact %.6g"
                              % (dv, float(bound), c["points"][e], float(exact)), {"point": c["points"][e], "value": repr(dv), "bound": float(bound)}))
    st["evals"] = nev
    # exact part: (vi) and (iv)
    if not want_exact or x is None or "nnls.A" not in o:
        return c["id"], fails, st
    AT = mat_of(o["nnls.A"]); rT = [dfrom(int(h, 16)) for h in o["nnls.r"][1:]]
    nonfin = [(i, j) for i, row in enumerate(AT) for j, v in enumerate(row) if v != v or abs(v) == math.inf] + \
             [(i, -1) for i, v in enumerate(rT) if v != v or abs(v) == math.inf]
    for k in range(nd):
        for tag in ("pen.%d" % k, "penT.%d" % k):
            if tag in o and any(v != v or abs(v) == math.inf for row in mat_of(o[tag]) for v in row):
                nonfin.append((tag, k))
    if nonfin:
        fails.append(("C10:tsystem:non-finite-entry", "the normal system handed to nnls_normal_block3 (or a penalty matrix from calc_penalty) has a NaN/infinite entry at %s although all inputs are finite"
                      % (nonfin[0],), {"where": [list(map(str, w)) for w in nonfin[:5]]}))
        return c["id"], fails, st
    have_free = "free.A" in o and o.get("free.coef", ["1"])[0] == "0"
    # penalty terms of the other dimensions with non-zero smoothing (B-basis copies from calc_penalty without a monotonic dimension):
    # only used to recognise the signature of the old defect D28 (fixed by F28_1: these terms were added WITHOUT the change of basis)
    others = [k for k in range(nd) if k != md and c["dims"][k]["smooth"] != 0.0 and ("pen.%d" % k) in o]
    st["other_dim_penalty"] = bool(others)
    d28 = False
    D28 = "C10:inactive:other-dimension-penalty-applied-to-increments"
    ABf = None
    if have_free:
        AB = mat_of(o["free.A"]); rB = [dfrom(int(h, 16)) for h in o["free.r"][1:]]
        ABf = [[Fr(v) for v in row] for row in AB]
        def transform(M):
            ML = [sufs_along(row, naxes, md) for row in M]                                       # M L  (row-wise suffix sums)
            cols = [sufs_along([ML[i][j] for i in range(n)], naxes, md) for j in range(n)]       # column j of L' (M L)
            return [[cols[j][i] for j in range(n)] for i in range(n)]
        def worst_diff(expect, got):
            worst, wij = Fr(0), None
            for i in range(n):
                ei, gi = expect[i], got[i]
                for j in range(n):
                    dlt = abs(ei[j] - Fr(gi[j]))
                    if dlt > worst:
                        worst, wij = dlt, (i, j)
            return worst, wij
        # (vi-a) term by term: calc_penalty(k, monodim) == L' calc_penalty(k, none) L  (L = cumulative sum along monodim), every k
        st["pen_terms_checked"] = 0
        for k in range(nd):
            if ("pen.%d" % k) not in o or ("penT.%d" % k) not in o:
                continue
            PkB = mat_of(o["pen.%d" % k]); PkT = mat_of(o["penT.%d" % k])
            PkBf = [[Fr(v) for v in row] for row in PkB]
            expk = transform(PkBf)
            sck = max(max(row) for row in transform([[abs(v) for v in row] for row in PkBf])) or Fr(1)
            wk, wkij = worst_diff(expk, PkT)
            st["pen_terms_checked"] += 1
            st["pen_term_rel"] = max(st.get("pen_term_rel", 0.0), float(wk / sck))
            if wk > sck * Fr(1, 2 ** 36):
                if k != md and PkT == PkB:
                    d28 = True
                    fails.append((D28, "calc_penalty for dimension %d of a fit that is monotonic along dimension %d returns the B-basis matrix (identity in the monodim slot of the "
                                  "Kronecker product) instead of L' P L: entry %s differs by %.3g (scale %.3g)" % (k, md, wkij, float(wk), float(sck)),
                                  {"dim": k, "entry": wkij, "diff": float(wk), "scale": float(sck)}))
                else:
                    fails.append(("C10:tsystem:penalty-term-not-transformed", "calc_penalty for dimension %d (monodim %d) differs from L' P_%d L at %s by %.3g (scale %.3g)"
                                  % (k, md, k, wkij, float(wk), float(sck)), {"dim": k, "entry": wkij, "diff": float(wk), "scale": float(sck)}))
        # (vi-b) the captured system: A_T == L' A_B L with A_B the whole B-basis normal matrix (data term and EVERY penalty term)
        expect = transform(ABf)
        scale_m = transform([[abs(v) for v in row] for row in ABf])
        scale = max(max(row) for row in scale_m) or Fr(1)
        tol = scale * Fr(1, 2 ** 36)
        worst, wij = worst_diff(expect, AT)
        st["tsys_rel"] = float(worst / scale)
        if worst > tol:
            sig = "C10:tsystem:matrix-not-the-transformed-system"
            oldform = False
            if others:
                # the old defect's exact form: A_T = L'(A_B - P_other)L + P_other
                Pother = [[Fr(0)] * n for _ in range(n)]
                for k in others:
                    lam = Fr(c["dims"][k]["smooth"])
                    Pk = mat_of(o["pen.%d" % k])
                    for i in range(n):
                        Pi = Pk[i]; Po = Pother[i]
                        for j in range(n):
                            if Pi[j] != 0.0:
                                Po[j] += lam * Fr(Pi[j])
                oldf = transform([[ABf[i][j] - Pother[i][j] for j in range(n)] for i in range(n)])
                oldf = [[oldf[i][j] + Pother[i][j] for j in range(n)] for i in range(n)]
                wo, _ = worst_diff(oldf, AT)
                if wo <= tol:
                    d28 = oldform = True
                    sig = D28
            fails.append((sig, "captured T-basis normal matrix differs from L' A L (A = normal matrix of the unconstrained fit) at %s by %.3g (scale %.3g)%s"
                          % (wij, float(worst), float(scale), "; it equals L'(A - P_other)L + P_other: the other dimensions' penalty terms are not in the T-basis" if oldform else ""),
                          {"entry": wij, "diff": float(worst), "scale": float(scale)}))
        rl = sufs_along([Fr(v) for v in rB], naxes, md)
        rla = sufs_along([abs(Fr(v)) for v in rB], naxes, md)
        rs = max(rla) or Fr(1)
        wr = max(abs(a - Fr(b)) for a, b in zip(rl, rT))
        if wr > rs * Fr(1, 2 ** 36):
            fails.append(("C10:tsystem:rhs-not-the-transformed-rhs", "captured T-basis right-hand side differs from L' r by %.3g (scale %.3g)" % (float(wr), float(rs)), {"diff": float(wr)}))
    # (iv-a) solver level: the exact solution z of the captured T-basis system; strictly positive => NNLS must return it
    ATf = [[Fr(v) for v in row] for row in AT]
    rTf = [Fr(v) for v in rT]
    def tsys_bounds(Am, rv):
        """exact solution, certified norms and the solver-exit distance bound of a T-basis system; (None, why) when singular"""
        z_, eps_, ninv_, why_ = solve_certified(Am, rv)
        if z_ is None:
            return None, why_
        normA_ = max(sum(abs(v) for v in row) for row in Am)
        kappa_ = normA_ * ninv_
        zmax_ = max(abs(v) for v in z_) if z_ else Fr(0)
        rmax_ = max([abs(v) for v in rv] + [Fr(0)])
        kkt_tol = Fr(n) * Fr(2) ** -52 * 100000
        resid_bound = n * kkt_tol * max(Fr(1), normA_) + 64 * n * U53 * kappa_ * (normA_ * zmax_ + rmax_)
        return {"z": z_, "kappa": kappa_, "zmax": zmax_, "dist_bound": 4 * n * ninv_ * resid_bound, "illcond": kappa_ * 64 * n * U53 > Fr(1, 1000)}, None
    tb, why = tsys_bounds(ATf, rTf)
    if tb is None:
        st["illposed"] = why
    else:
        st["kappa"] = float(tb["kappa"])
    if any(v != v or abs(v) == math.inf for v in x):
        return c["id"], fails, st          # NaN/inf from the solver: already reported by (ii) when the system is certified non-singular
    if tb is not None:
        st["zmin_rel"] = float(min(tb["z"]) / tb["zmax"]) if tb["zmax"] else 0.0
        if tb["illcond"]:
            st["illcond"] = True
    # the captured T-system is NOT what the theorems say it is (a (vi) disagreement was just recorded) and is singular / ill-conditioned:
    # the second sentence is still judged, with the bounds of the system that SHOULD have been solved, L' A L (exact) - otherwise a
    # corrupted system would switch the property's own oracle off
    mismatch = any(sig.startswith("C10:tsystem:") or sig == D28 for sig, _, _ in fails)
    if (tb is None or tb["illcond"]) and mismatch and have_free:
        tb2, _ = tsys_bounds(expect, rl)
        if tb2 is not None and not tb2["illcond"]:
            st["second_sentence_bounds_from_expected_system"] = True
            tb = dict(tb2, solver_part=False)
    if tb is None or tb["illcond"]:
        return c["id"], fails, st
    z, kappa, zmax, dist_bound = tb["z"], tb["kappa"], tb["zmax"], tb["dist_bound"]
    xf = [Fr(v) for v in x]
    if tb.get("solver_part", True) and min(z) > 2 * dist_bound and min(z) > zmax * Fr(1, 10 ** 9):
        st["inactive_T"] = True
        dist = max(abs(a - b) for a, b in zip(xf, z))
        st["inactive_dist_rel"] = float(dist / zmax)
        if dist > dist_bound:
            sig = "C11:block3-maxiter-exit-not-kkt" if maxiter else "C10:inactive:nnls-differs-from-unconstrained-solution"
            fails.append((sig, "the exact solution of the captured normal equations has strictly positive increments (min %.3g) but nnls_normal_block3 returned a vector at distance %.3g (> %.3g)%s"
                          % (float(min(z)), float(dist), float(dist_bound), " after max_iter" if maxiter else ""), {"dist": float(dist), "bound": float(dist_bound), "maxiter": maxiter}))
    # (iv-b) the property's second sentence, directly: the exact unconstrained minimiser c* (B-basis system of the unconstrained fit);
    # when c* >= 0 and strictly increasing along monodim with a margin, the monotone fit must return c* up to rounding
    if have_free and finite:
        cstar, epsB, ninvB, whyB = solve_certified(ABf, [Fr(v) for v in rB])
        if cstar is not None:
            normB = max(sum(abs(v) for v in row) for row in ABf)
            kB = normB * ninvB
            cmax = max([abs(v) for v in cstar] + [Fr(0)])
            inc = [cstar[p] - (cstar[p - s2] if p % (s2 * nm) >= s2 else 0) for p in range(n)]
            tolc = 2 * (nm * dist_bound + Fr(nm + 1, 2 ** 22) * cmax) + 64 * n * U53 * (kB + kappa) * cmax
            if cmax > 0 and kB * 64 * n * U53 <= Fr(1, 1000) and min(inc) > 4 * tolc and min(inc) > cmax * Fr(1, 10 ** 6):
                st["inactive"] = True
                dm = max(abs(Fr(a) - b) for a, b in zip(coef, cstar))
                st["mono_vs_unconstrained_rel"] = float(dm / cmax)
                if dm > tolc:
                    if d28:
                        sig = D28
                    elif maxiter:
                        sig = "C11:block3-maxiter-exit-not-kkt"
                    else:
                        sig = "C10:inactive:coefficients-differ-from-unconstrained-fit"
                    fails.append((sig, "the unconstrained minimiser is non-negative and strictly increasing along dimension %d (min increment %.3g, max |c| %.3g) but the monotone fit's "
                                  "coefficients differ from it by %.3g (> %.3g); ndim=%d smoothing=%s" % (md, float(min(inc)), float(cmax), float(dm), float(tolc), nd, [d["smooth"] for d in c["dims"]]),
                                  {"diff": float(dm), "tol": float(tolc), "maxiter": maxiter, "other_dim_penalty": bool(others)}))
    return c["id"], fails, st

def cums_transposed_row(row, naxes, md):
    """row * L  (L = cumulative sum along monodim as a matrix): (row L)_c = sum_{r >= c along monodim} row_r = suffix sums of the row"""
    return sufs_along(row, naxes, md)

def kappa_free(ABf, n):
    """a bound of the condition number of the B-basis matrix (infinity norm) for the unconstrained fit's own rounding"""
    z, eps, ninv, why = solve_certified(ABf, [Fr(0)] * n)
    if ninv is None:
        return Fr(10) ** 12
    return max(sum(abs(v) for v in row) for row in ABf) * ninv

# ------------------------------------------------------------------------------------------------
def case_public(c):
    return {"id": c["id"], "kind": c["kind"], "ndim": len(c["dims"]), "monodim": c["monodim"], "orders": [d["order"] for d in c["dims"]],
            "porders": [d["porder"] for d in c["dims"]], "smooth": [d["smooth"] for d in c["dims"]], "nsplines": [nspl_of(d) for d in c["dims"]],
            "entries": len(c["entries"])}

def process(cases, exe_i, exe_m, pool, out, cov, exact_limit):
    restarts = []
    t0 = time.time()
    res, bad = run_impl_parallel(exe_i, cases, restarts)
    cov["harness_s"] = cov.get("harness_s", 0) + round(time.time() - t0, 1)
    cov["harness_restarts"] = cov.get("harness_restarts", 0) + len(restarts)
    parsed = {cid: parse_case_output(lines) for cid, lines in res.items()}
    items = []
    for c in cases:
        o = parsed.get(c["id"], {})
        if o.get("nnls.x", ["NULL"])[0] != "NULL" and "nnls.x" in o:
            items.append((c["id"], c["monodim"], [nspl_of(d) for d in c["dims"]], o["nnls.x"][1:]))
    model = run_model(exe_m, items) if items else {}
    jobs = []
    for c in cases:
        o = parsed.get(c["id"])
        if o is None:
            continue
        ncoef = 1
        for d in c["dims"]:
            ncoef *= nspl_of(d)
        jobs.append((c, o, model.get(c["id"]), ncoef <= exact_limit))
    results = pool.map(analyse, jobs, chunksize=1)
    byid = {c["id"]: c for c in cases}
    nfail = 0
    for cid, fails, st in results:
        c = byid[cid]
        cov["evaluations"] += 1
        h = case_hash(c)
        if st.get("failed"):
            cov["hangs_or_crashes"].append((cid, st["failed"]))
            if "crash" in st["failed"]:
                out.violation("C10:fit:crash", "the monotone fit crashed the harness (%s)" % st["failed"], {"case": c})
            continue
        if st.get("fit_error"):
            cov["fit_errors"] += 1
            continue
        if st.get("illposed_nan"):
            cov["illposed_nan"] = cov.get("illposed_nan", 0) + 1
            continue
        cov["traces_validated_against_impl"] += 1 if cid in model else 0
        nontrivial = st.get("n_zero_increments", 0) > 0 or st.get("strict_steps", 0) > 0
        if nontrivial:
            cov["_hashes"].add(h)
        hist = cov["input_distribution"]
        for key in ("kind:" + c["kind"], "ndim:%d" % len(c["dims"]), "monodim:%d" % c["monodim"], "order_mono:%d" % c["dims"][c["monodim"]]["order"],
                    "active" if st.get("n_zero_increments", 0) > 0 else "all-increments-positive",
                    "inactive-checked" if (st.get("inactive") or st.get("inactive_T")) else ("illposed" if st.get("illposed") else ("illcond" if st.get("illcond") else "constraint-active-or-unchecked")),
                    "maxiter" if st.get("maxiter") else "normal-exit", "sparse" if c.get("sparse", 1.0) < 1.0 else "full-grid",
                    "family:" + c.get("family", "random")):
            hist[key] = hist.get(key, 0) + 1
        sc = cov.setdefault("structural_classes", {})
        for cl in axis_classes(c):
            sc[cl] = sc.get(cl, 0) + 1
        cov["derivative_evals"] += st.get("evals", 0)
        if st.get("tsys_rel") is not None:
            cov["tsys_checked"] += 1
            cov["tsys_worst_rel"] = max(cov["tsys_worst_rel"], st["tsys_rel"])
        if st.get("pen_terms_checked"):
            cov["pen_terms_checked"] = cov.get("pen_terms_checked", 0) + st["pen_terms_checked"]
            cov["pen_term_worst_rel"] = max(cov.get("pen_term_worst_rel", 0.0), st.get("pen_term_rel", 0.0))
        if st.get("other_dim_penalty") and st.get("tsys_rel") is not None:
            cov["tsys_checked_with_other_dim_smoothing"] = cov.get("tsys_checked_with_other_dim_smoothing", 0) + 1
        if st.get("inactive") and st.get("other_dim_penalty"):
            cov["inactive_with_other_dim_smoothing"] = cov.get("inactive_with_other_dim_smoothing", 0) + 1
        if st.get("inactive_dist_rel") is not None:
            cov["inactive_worst_rel"] = max(cov["inactive_worst_rel"], st["inactive_dist_rel"])
        if len(cov["samples"]) < 3 and nontrivial:
            cov["samples"].append(dict(case_public(c), stats={k: v for k, v in st.items() if k != "failed"}))
        for sig, what, detail in fails:
            nfail += 1
            out.violation(sig, what, {"case": c, "detail": detail, "stats": st, "public": case_public(c)})
    return nfail

def new_cov():
    return {"evaluations": 0, "traces_validated_against_impl": 0, "_hashes": set(), "input_distribution": {}, "samples": [], "fit_errors": 0,
            "hangs_or_crashes": [], "derivative_evals": 0, "tsys_checked": 0, "tsys_worst_rel": 0.0, "inactive_worst_rel": 0.0}

def run(info, out):
    tier, seed = info["tier"], info["seed"]
    exe_i = build_impl()
    exe_m = build_extracted("mono")
    cov = new_cov()
    pool = Pool(NCPU)
    try:
        if info.get("replay"):
            payload = json.load(open(info["replay"]))
            c = payload.get("case") or payload
            c["id"] = c.get("id", "replay")
            n = process([c], exe_i, exe_m, pool, out, cov, 10 ** 9)
            print("replay of %s: %d check(s) failed" % (info["replay"], n))
            for sig, what, _ in out.violations:
                print("  [%s] %s" % (sig, what))
        else:
            cdir = os.path.join(VERIF, "corpus", "C10")
            corpus = []
            if os.path.isdir(cdir):
                for f in sorted(os.listdir(cdir)):
                    if f.endswith(".json"):
                        c = json.load(open(os.path.join(cdir, f)))
                        c = c.get("case") or c
                        c["id"] = "corpus_" + f[:-5]
                        corpus.append(c)
            if corpus:
                process(corpus, exe_i, exe_m, pool, out, cov, 10 ** 9)
            cov["corpus_cases"] = len(corpus)
            nbase = 360 if tier == "quick" else 3000
            if not info["proof_ok"]:
                nbase *= 10
            rng = Rng(seed)
            t_end = time.time() + (100 if tier == "quick" else 900)
            done, batch, bi = 0, (120 if tier == "quick" else 400), 0
            while done < nbase and time.time() < t_end:
                k = min(batch, nbase - done)
                r = rng.fork("batch%d" % bi)
                cases = [gen_case(r.fork("c%d" % i), "g%d_%d" % (bi, i), big=(tier != "quick" and i % 5 == 0)) for i in range(k)]
                nf = process(cases, exe_i, exe_m, pool, out, cov, 90 if tier == "quick" else 130)
                done += k; bi += 1
                if nf and nbase < 10 * (360 if tier == "quick" else 3000) and not info["proof_ok"]:
                    pass
            # the structured family (own random stream; enumerated classes, see struct_plan)
            rs = Rng(seed).fork("C10-structured")
            reps = 1 if info["proof_ok"] else 5
            nstruct = 0
            for rep in range(reps if tier == "quick" else 2 * reps):
                plan = struct_plan(rs.fork("plan%d" % rep), tier)
                scases = [gen_case_struct(rs.fork("s%d_%d" % (rep, i)), "s%d_%d" % (rep, i), desc) for i, desc in enumerate(plan)]
                process(scases, exe_i, exe_m, pool, out, cov, 90 if tier == "quick" else 130)
                nstruct += len(scases)
            cov["structured_cases"] = nstruct
            cov["generated_cases"] = done + nstruct
    finally:
        pool.close(); pool.join()
    if not info["proof_ok"] and not info.get("replay"):
        # run.py only adds its own "proof-broken" violation when NO violation at all was recorded; a reproduced known finding
        # must not mask a broken proof obligation: report it here unless the intensified search found a fresh failing input
        known = open_signatures("C10")
        if not any(sig not in known for sig, _, _ in out.violations):
            out.violation("C10:proof-broken", "a proof obligation / translator no longer checks against this tree and the intensified search (%d fits) found no failing input"
                          % cov["evaluations"], {"no_failing_input_found": True, "broken": info["broken"]})
    cov["distinct_nontrivial"] = len(cov.pop("_hashes"))
    cov["rule"] = ("real monotone fits (1..3 dims, every monodim, orders 1..4, penalty orders 0..3, smoothing 0..64, irregular distinct knots, full or sparse grids, "
                   "random weights incl. 0; data kinds: noisy increasing, decreasing, oscillating, step, negative, constant, spline with non-negative increments); non-trivial = "
                   "the NNLS solution has at least one increment exactly 0 (constraint active) or the coefficients strictly increase somewhere; distinct by the bits of the whole case. "
                   "STRUCTURED family (round 3; input_distribution `family:*' and structural_classes give the measured counts per class): twin axes (two dimensions with the same order, bitwise-equal knots and "
                   "abscissae) for every pair of axes of 2- and 3-dimensional fits with the monotonic dimension the first / the second of the pair / the third axis, each with constraint-activating data, with "
                   "spline data that leave the constraint inactive, and with any data; near-twins (one knot / one abscissa / the order differs) as controls; axes with one and two basis functions (nknots = order+2, "
                   "order+3) x every legal penalty order (= nsplines included) x zero / non-zero smoothing, as the monotonic axis and as another axis, in every position; a data grid of length 1 along the "
                   "monotonic / another axis; one long axis (8..14) next to axes with 1-2 basis functions; tables with fewer than 2*order+2 knots in a dimension get no derivative probes (empty fully "
                   "supported region), every other check runs on them")
    if cov["harness_restarts"]:
        out.notes.append("harness restarted %d time(s) by the progress watchdog (lost wake-up in walk_descents, C12/D7, or a crash: see hangs_or_crashes)" % cov["harness_restarts"])
    return cov
