"""C07mut.py — mutation generator for property C07: files obtainable from valid spline files by header-card edits, dropped /
reordered / resized extensions, bad knot data, byte flips and truncation, plus foreign FITS and non-FITS bytes.
A file is handled as a list of HDUs (cards: list of 80-byte records without END; data: unpadded bytes) and re-serialised in the
canonical way (END, blank fill to 2880; zero fill to 2880) — identical to what the library / the model encoder write."""
import struct, math

BLOCK = 2880

class Hdu:
    def __init__(self, cards, data):
        self.cards, self.data = list(cards), bytes(data)
    def copy(self):
        return Hdu(self.cards, self.data)
    def key(self, name):
        n8 = name.encode().ljust(8)
        for c in self.cards:
            if c[:8] == n8 and c[8:10] == b"= ":
                return c[10:].split(b"/")[0].strip().decode("latin1")
        return None
    def strkey(self, name):
        v = self.key(name)
        if v is None or not v.startswith("'"):
            return None
        return v.strip("'").rstrip()
    def find(self, name):
        n8 = name.encode().ljust(8)
        for i, c in enumerate(self.cards):
            if c[:8] == n8:
                return i
        return None
    def set(self, name, text):
        """fixed-format value, right-justified to column 30"""
        i = self.find(name)
        card = (name.encode().ljust(8) + b"= " + text.encode().rjust(20)).ljust(80)
        if i is None:
            self.cards.append(card)
        else:
            self.cards[i] = card
    def setstr(self, name, s):
        i = self.find(name)
        card = (name.encode().ljust(8) + b"= '" + s.encode().ljust(8) + b"'").ljust(80)
        if i is None:
            self.cards.append(card)
        else:
            self.cards[i] = card
    def drop(self, name):
        i = self.find(name)
        if i is not None:
            self.cards[i] = b"COMMENT   removed card".ljust(80)
    def axes(self):
        n = int(self.key("NAXIS"))
        return [int(self.key("NAXIS%d" % j)) for j in range(1, n + 1)]
    def wordsize(self):
        return abs(int(self.key("BITPIX"))) // 8
    def header_bytes(self):
        h = b"".join(self.cards) + b"END".ljust(80)
        return h + b" " * ((-len(h)) % BLOCK)
    def bytes(self):
        return self.header_bytes() + self.data + b"\0" * ((-len(self.data)) % BLOCK)

def parse(b):
    hdus, pos = [], 0
    while pos < len(b):
        hstart, cards = pos, []
        while True:
            c = b[pos:pos + 80]
            if len(c) < 80:
                raise ValueError("truncated header")
            pos += 80
            if c[:8] == b"END     ":
                break
            cards.append(c)
        pos = hstart + (pos - hstart + BLOCK - 1) // BLOCK * BLOCK
        h = Hdu(cards, b"")
        ax = h.axes()
        n = 0
        if ax:
            n = 1
            for a in ax:
                n *= a
            if h.key("PCOUNT") is not None:
                n = int(h.key("GCOUNT")) * (int(h.key("PCOUNT")) + n)
        nbytes = n * h.wordsize()
        h.data = b[pos:pos + nbytes]
        pos += (nbytes + BLOCK - 1) // BLOCK * BLOCK
        hdus.append(h)
    return hdus

def serialise(hdus):
    return b"".join(h.bytes() for h in hdus)

def dwords(data):
    return list(struct.unpack(">%dQ" % (len(data) // 8), data))
def dbytes(words):
    return struct.pack(">%dQ" % len(words), *words)
def d2w(x):
    return struct.unpack(">Q", struct.pack(">d", x))[0]
def w2d(w):
    return struct.unpack(">d", struct.pack(">Q", w))[0]

def knot_hdus(hdus):
    out = {}
    for i, h in enumerate(hdus[1:], 1):
        nm = h.strkey("EXTNAME")
        if nm and nm.startswith("KNOTS"):
            out[int(nm[5:])] = i
    return out

def ext_index(hdus, name):
    for i, h in enumerate(hdus[1:], 1):
        if h.strkey("EXTNAME") == name:
            return i
    return None

def resize_data(h, newcount, rng, fill="pattern"):
    ws = h.wordsize()
    cur = len(h.data) // ws
    if newcount <= cur:
        h.data = h.data[:newcount * ws]
    else:
        extra = newcount - cur
        if fill == "pattern" and ws == 4:
            h.data += b"".join(struct.pack(">f", float(rng.rint(-5, 5))) for _ in range(extra))
        else:
            h.data += b"\0" * (extra * ws)

# ------------------------------------------------------------------------------------------------
# the mutations. Each takes (rng, hdus) (a private copy) and returns (class name, bytes) or None when not applicable.
def m_order(kind):
    def f(rng, hd):
        p = hd[0]
        nd = len(p.axes())
        i = rng.below(nd)
        cur = p.key("ORDER%d" % i)
        if cur is None:
            return None
        cur = int(cur)
        if kind == "+1":
            p.set("ORDER%d" % i, str(cur + rng.choice([1, 1, 2, 5])))
        elif kind == "-1":
            if cur == 0:
                return None
            p.set("ORDER%d" % i, str(cur - 1))
        elif kind == "=huge":
            p.set("ORDER%d" % i, rng.choice(["4294967295", "2147483647", "2147483648", "4294967296", "1000000", "99999999999999999999"]))
        elif kind == "=negative":
            p.set("ORDER%d" % i, rng.choice(["-1", "-2", "-2147483648"]))
        elif kind == "-missing":
            p.drop("ORDER%d" % i)
        elif kind == "=float":
            p.set("ORDER%d" % i, rng.choice(["2.0", "1.5", "1E0", "2."]))
        elif kind == "=string":
            p.setstr("ORDER%d" % i, rng.choice(["2", "two", ""]))
        return "ORDERn" + kind, serialise(hd)
    return f

def m_order_single(kind):
    def f(rng, hd):
        p = hd[0]
        nd = len(p.axes())
        vals = [p.key("ORDER%d" % i) for i in range(nd)]
        if None in vals:
            return None
        for i in range(nd):
            p.drop("ORDER%d" % i)
        v = {"negative": rng.choice(["-1", "-3"]), "huge": rng.choice(["2147483647", "2147483648", "4294967295"]), "same": vals[0], "float": "2.0"}[kind]
        i0 = p.find("TYPE")
        card = (b"ORDER   = " + v.encode().rjust(20)).ljust(80)
        p.cards.insert((i0 + 1) if i0 is not None else len(p.cards), card)
        return "ORDER-single-" + kind, serialise(hd)
    return f

def m_naxis(kind, resized):
    def f(rng, hd):
        p = hd[0]
        ax = p.axes()
        j = rng.rint(1, len(ax))
        cur = ax[j - 1]
        new = {"+1": cur + rng.choice([1, 1, 2]), "-1": cur - 1, "=0": 0, "=huge": rng.choice([10 ** 7, 2 ** 31, 2 ** 40, 2 ** 62])}[kind]
        if new < 0 or new == cur:
            return None
        p.set("NAXIS%d" % j, str(new))
        if resized:
            if kind == "=huge":
                return None
            n = 1
            for a in p.axes():
                n *= a
            resize_data(p, n, rng)
        return "NAXISn" + kind + ("-resized" if resized else ""), serialise(hd)
    return f

def m_mod32(which):
    """an integer header value replaced by one that is congruent to it modulo 2^32 (or 2^31 / 2^16): a 64-bit value that survives
    a narrowing cast unchanged — sizes of the primary image, of a knot vector, of EXTENTS; an ORDER key"""
    def f(rng, hd):
        k = rng.choice([1, 1, 2, 3]) * (2 ** rng.choice([32, 32, 32, 33, 31, 16]))
        if which == "order":
            p = hd[0]
            nd = len(p.axes())
            i = rng.below(nd)
            v = p.key("ORDER%d" % i)
            if v is None:
                return None
            p.set("ORDER%d" % i, str(int(v) + k))
            return "mod32-order", serialise(hd)
        if which == "primary":
            h = hd[0]
        elif which == "extents":
            i = ext_index(hd, "EXTENTS")
            if i is None:
                return None
            h = hd[i]
        else:
            ks = knot_hdus(hd)
            if not ks:
                return None
            h = hd[ks[rng.choice(sorted(ks))]]
        ax = h.axes()
        if not ax:
            return None
        j = rng.rint(1, len(ax))
        h.set("NAXIS%d" % j, str(ax[j - 1] + k))
        return "mod32-" + which, serialise(hd)
    return f

def m_naxis_count(kind):
    def f(rng, hd):
        p = hd[0]
        ax = p.axes()
        if kind == "-1":
            if len(ax) < 2:
                return None
            p.set("NAXIS", str(len(ax) - 1))
            p.drop("NAXIS%d" % len(ax))
        elif kind == "=0":
            p.set("NAXIS", "0")
            for j in range(1, len(ax) + 1):
                p.drop("NAXIS%d" % j)
            p.data = b""
        elif kind == "+1":
            i = p.find("NAXIS%d" % len(ax))
            p.set("NAXIS", str(len(ax) + 1))
            p.cards.insert(i + 1, (("NAXIS%d" % (len(ax) + 1)).encode().ljust(8) + b"= " + b"1".rjust(20)).ljust(80))
        return "NAXIS" + kind, serialise(hd)
    return f

def m_knots_len(kind):
    def f(rng, hd):
        ks = knot_hdus(hd)
        if not ks:
            return None
        d = rng.choice(sorted(ks))
        h = hd[ks[d]]
        w = dwords(h.data)
        if kind == "+1":
            w = w + [d2w(w2d(w[-1]) + 1.0)]
        elif kind == "-1":
            if len(w) < 2:
                return None
            w = w[:-1]
        elif kind == "=0":
            w = []
        elif kind == "header-only+1":
            h.set("NAXIS1", str(len(w) + 1))
            return "KNOTS-NAXIS1+1-unresized", serialise(hd)
        h.data = dbytes(w)
        h.set("NAXIS1", str(len(w)))
        return "KNOTS-NAXIS1" + kind, serialise(hd)
    return f

def m_order_vs_knots(rng, hd):
    """consistent shapes (naxes = nknots - order - 1) but fewer than 2*order+2 knots, i.e. naxes < order+1"""
    p = hd[0]
    ax = p.axes()
    nd = len(ax)
    i = rng.below(nd)
    j = nd - i                      # NAXISj = naxes[ndim-j]
    o = p.key("ORDER%d" % i)
    if o is None:
        return None
    o = int(o)
    a = ax[j - 1]
    # order' = o + d, naxes' = a - d, need 1 <= a - d < o + d + 1
    ds = [d for d in range(1, a) if a - d < o + d + 1]
    if not ds:
        return None
    d = rng.choice(ds)
    p.set("ORDER%d" % i, str(o + d))
    p.set("NAXIS%d" % j, str(a - d))
    n = 1
    for x in p.axes():
        n *= x
    resize_data(p, n, rng)
    return "order-vs-knots", serialise(hd)

def m_bitpix(target, resized):
    def f(rng, hd):
        ks = knot_hdus(hd)
        if target == "primary":
            h = hd[0]
        else:
            if not ks:
                return None
            h = hd[ks[rng.choice(sorted(ks))]]
        cur = int(h.key("BITPIX"))
        new = rng.choice([b for b in (8, 16, 32, 64, -32, -64) if b != cur])
        n = len(h.data) // h.wordsize()
        h.set("BITPIX", str(new))
        if resized:
            vals = [rng.rint(0, 100) for _ in range(n)]
            if target != "primary":
                vals = sorted(vals)
            fmt = {8: "B", 16: "h", 32: "i", 64: "q", -32: "f", -64: "d"}[new]
            h.data = struct.pack(">%d%s" % (n, fmt), *[float(v) if new < 0 else v for v in vals])
        return "BITPIX-%s=%d%s" % (target, new, "-resized" if resized else ""), serialise(hd)
    return f

def m_extname(kind):
    def f(rng, hd):
        ks = knot_hdus(hd)
        if not ks:
            return None
        d = rng.choice(sorted(ks))
        h = hd[ks[d]]
        if kind == "renamed":
            h.setstr("EXTNAME", rng.choice(["KNOTSX", "KNOTS", "KNOTS%d" % (len(ks) + 3), "KNOT%d" % d, "EXTENTS", ""]))
        elif kind == "lowercase":
            h.setstr("EXTNAME", "knots%d" % d)
        elif kind == "hduname":
            i = h.find("EXTNAME")
            h.cards[i] = (b"HDUNAME = '" + ("KNOTS%d" % d).encode().ljust(8) + b"'").ljust(80)
        elif kind == "duplicated":
            # an earlier extension with the same name and a different knot vector
            dup = h.copy()
            w = dwords(dup.data)
            w = w + [d2w(w2d(w[-1]) + 1.0)] if rng.chance(0.5) or len(w) < 3 else w[:-1]
            dup.data = dbytes(w)
            dup.set("NAXIS1", str(len(w)))
            hd.insert(ks[d] if rng.chance(0.7) else len(hd), dup)
        elif kind == "swapped":
            if len(ks) < 2:
                return None
            e = rng.choice([x for x in sorted(ks) if x != d])
            hd[ks[d]].setstr("EXTNAME", "KNOTS%d" % e)
            hd[ks[e]].setstr("EXTNAME", "KNOTS%d" % d)
        elif kind == "missing":
            h.drop("EXTNAME")
        elif kind == "primary-shadow":
            hd[0].setstr("EXTNAME", "KNOTS%d" % d)
        return "EXTNAME-" + kind, serialise(hd)
    return f

def m_ext(kind):
    def f(rng, hd):
        if len(hd) < 2:
            return None
        if kind == "dropped-knots":
            ks = knot_hdus(hd)
            if not ks:
                return None
            del hd[ks[rng.choice(sorted(ks))]]
        elif kind == "dropped-extents":
            i = ext_index(hd, "EXTENTS")
            if i is None:
                return None
            del hd[i]
        elif kind == "dropped-all":
            del hd[1:]
        elif kind == "reordered":
            rest = hd[1:]
            if len(rest) < 2:
                return None
            before = list(rest)
            for _ in range(5):
                rng.shuffle(rest)
                if any(a is not b for a, b in zip(rest, before)):
                    break
            hd[1:] = rest
        elif kind == "extents-resized":
            i = ext_index(hd, "EXTENTS")
            if i is None:
                return None
            h = hd[i]
            w = dwords(h.data)
            w = w[:-1] if rng.chance(0.5) else w + [d2w(1.0)]
            h.data = dbytes(w)
            h.set("NAXIS1", str(len(w)))
        elif kind == "extents-nan":
            i = ext_index(hd, "EXTENTS")
            if i is None:
                return None
            h = hd[i]
            w = dwords(h.data)
            w[rng.below(len(w))] = 0x7ff8000000000000
            h.data = dbytes(w)
        elif kind == "xtension-table":
            ks = knot_hdus(hd)
            if not ks:
                return None
            h = hd[ks[rng.choice(sorted(ks))]]
            h.cards[0] = b"XTENSION= 'BINTABLE'".ljust(80)
        elif kind == "extra-foreign":
            hd.insert(rng.rint(1, len(hd)), foreign_bintable_hdu())
        return "ext-" + kind, serialise(hd)
    return f

def m_knots(kind):
    def f(rng, hd):
        ks = knot_hdus(hd)
        if not ks:
            return None
        h = hd[ks[rng.choice(sorted(ks))]]
        w = dwords(h.data)
        n = len(w)
        k = rng.below(n)
        if kind == "nan":
            w[k] = rng.choice([0x7ff8000000000000, 0xfff8000000000000, 0x7ff0000000000001, 0x7fffffffffffffff])
        elif kind == "inf":
            w[n - 1 if rng.chance(0.6) else k] = 0x7ff0000000000000
        elif kind == "neginf":
            w[0 if rng.chance(0.6) else k] = 0xfff0000000000000
        elif kind == "unsorted":
            v = [w2d(x) for x in w]
            pairs = [(a, b) for a in range(n) for b in range(a + 1, n) if v[a] != v[b]]
            if not pairs:
                return None
            a, b = rng.choice(pairs)
            w[a], w[b] = w[b], w[a]
        elif kind == "reversed":
            v = [w2d(x) for x in w]
            if v[0] == v[-1]:
                return None
            w = w[::-1]
        elif kind == "hugespan":
            # finite, sorted, but the difference of the end knots (and of many inner pairs) overflows to +inf
            w = [d2w(-1.7e308 + (3.4e308 / max(1, n - 1)) * i if i < n - 1 else 1.7e308) for i in range(n)]
        elif kind == "hugeends":
            v = sorted(w2d(x) for x in w)
            if any(x != x or x in (float("inf"), float("-inf")) for x in v):
                return None
            m = max(1, n // 3)
            v = [(-1.6e308 - 1e305 * (m - i)) if i < m else (1.6e308 + 1e305 * (i - (n - m))) if i >= n - m else x * 1e-3 for i, x in enumerate(v)]
            w = [d2w(x) for x in sorted(v)]
        elif kind == "tinyspan":
            v = sorted(w2d(x) for x in w)
            if any(x != x or x in (float("inf"), float("-inf")) for x in v):
                return None
            w = [d2w(x * 2.0 ** -1065) for x in v]
        elif kind == "allequal":
            w = [w[0]] * n
        elif kind == "negzero":
            w = [d2w(x) for x in sorted([w2d(x) for x in w])]
            v = [w2d(x) for x in w]
            zs = [i for i in range(n) if v[i] == 0.0]
            if not zs:
                return None
            w[zs[0]] = 0x8000000000000000 if w[zs[0]] == 0 else 0
        h.data = dbytes(w)
        return "knots-" + kind, serialise(hd)
    return f

def m_byteflip(where):
    def f(rng, hd):
        b = bytearray(serialise(hd))
        # positions of header and data bytes
        spans, pos = [], 0
        for h in hd:
            hl = len(h.header_bytes())
            dl = len(h.data)
            spans.append(("header", pos, pos + (len(h.cards) + 1) * 80))
            if dl:
                spans.append(("data", pos + hl, pos + hl + dl))
            pos += len(h.bytes())
        cand = [s for s in spans if where == "any" or s[0] == where]
        if not cand:
            return None
        for _ in range(rng.choice([1, 1, 1, 2, 3, 8])):
            s = rng.choice(cand)
            p = s[1] + rng.below(s[2] - s[1])
            b[p] ^= 1 << rng.below(8)
        return "byteflip-" + where, bytes(b)
    return f

def m_trunc(kind):
    def f(rng, hd):
        b = serialise(hd)
        if kind == "block":
            n = BLOCK * rng.rint(0, len(b) // BLOCK - 1)
        elif kind == "card":
            # a card boundary inside some header
            pos, cuts = 0, []
            for h in hd:
                cuts += [pos + 80 * k for k in range(1, len(h.cards) + 2)]
                pos += len(h.bytes())
            n = rng.choice(cuts)
        elif kind == "data":
            pos, cuts = 0, []
            for h in hd:
                hl = len(h.header_bytes())
                if h.data:
                    cuts += [pos + hl + rng.below(len(h.data)), pos + hl + len(h.data)]
                pos += len(h.bytes())
            if not cuts:
                return None
            n = rng.choice(cuts)
        else:
            n = rng.below(len(b))
        return "trunc-" + kind, b[:n]
    return f

def m_append(rng, hd):
    b = serialise(hd)
    tail = rng.choice([b"\0" * 100, b"garbage" * 50, b" " * BLOCK, b"XTENSION= 'IMAGE   '".ljust(80) + b"BITPIX  = ".ljust(80)])
    return "trailing-garbage", b + tail

def card(k, v):
    return (k.encode().ljust(8) + b"= " + v.encode().rjust(20)).ljust(80)
def scard(k, s):
    return (k.encode().ljust(8) + b"= '" + s.encode().ljust(8) + b"'").ljust(80)

def foreign_bintable_hdu():
    cards = [scard("XTENSION", "BINTABLE"), card("BITPIX", "8"), card("NAXIS", "2"), card("NAXIS1", "8"), card("NAXIS2", "3"),
             card("PCOUNT", "0"), card("GCOUNT", "1"), card("TFIELDS", "1"), scard("TTYPE1", "X"), scard("TFORM1", "1D"), scard("EXTNAME", "KNOTS0")]
    return Hdu(cards, struct.pack(">3d", 1.0, 2.0, 3.0))

def foreign(kind):
    def f(rng, hd):
        prim0 = [card("SIMPLE", "T"), card("BITPIX", "8"), card("NAXIS", "0"), card("EXTEND", "T")]
        if kind == "empty-primary":
            return "foreign-empty-primary", serialise([Hdu(prim0, b"")])
        if kind == "bintable":
            return "foreign-bintable", serialise([Hdu(prim0, b""), foreign_bintable_hdu()])
        if kind == "asciitable":
            cards = [scard("XTENSION", "TABLE"), card("BITPIX", "8"), card("NAXIS", "2"), card("NAXIS1", "10"), card("NAXIS2", "2"),
                     card("PCOUNT", "0"), card("GCOUNT", "1"), card("TFIELDS", "1"), card("TBCOL1", "1"), scard("TFORM1", "F10.3")]
            return "foreign-asciitable", serialise([Hdu(prim0, b""), Hdu(cards, b"     1.000     2.000")])
        if kind == "plain-image":
            n1, n2 = rng.rint(1, 6), rng.rint(1, 6)
            bp = rng.choice([-32, -32, 16, -64])
            cards = [card("SIMPLE", "T"), card("BITPIX", str(bp)), card("NAXIS", "2"), card("NAXIS1", str(n1)), card("NAXIS2", str(n2))]
            return "foreign-plain-image", serialise([Hdu(cards, b"\x3f\x80\0\0" * (n1 * n2 * abs(bp) // 32))])
        if kind == "image-with-orders":
            n1 = rng.rint(1, 6)
            cards = [card("SIMPLE", "T"), card("BITPIX", "-32"), card("NAXIS", "1"), card("NAXIS1", str(n1)), card("EXTEND", "T"), card("ORDER0", "2")]
            return "foreign-image-with-orders", serialise([Hdu(cards, b"\x3f\x80\0\0" * n1)])
        if kind == "random":
            return "nonfits-random", bytes(rng.below(256) for _ in range(rng.choice([1, 79, 80, 2879, 2880, 5000])))
        if kind == "text":
            return "nonfits-text", (b"this is not a FITS file\n" * rng.rint(1, 300))
        if kind == "empty":
            return "nonfits-empty", b""
        if kind == "simple-only":
            return "nonfits-simple-only", rng.choice([card("SIMPLE", "T"), card("SIMPLE", "T") + b"END".ljust(80), (card("SIMPLE", "T") + b"END".ljust(80)).ljust(BLOCK),
                                                       card("SIMPLE", "F").ljust(BLOCK)])
    return f

STRUCT_PREFIXES = (b"SIMPLE", b"BITPIX", b"NAXIS", b"EXTEND", b"TYPE", b"ORDER", b"PERIOD", b"COMMENT", b"HISTORY", b"PCOUNT", b"GCOUNT")
BAD_CARDS = [b"NOTE    = (1.0, 2.0", b"NOTE    = 'never closed", b"NOTE    =", b"NOTE    = 1.0 2.0 3.0", b"NOTE      no equals sign here",
             b"note    = 'lowercase keyword'", b"NOTE    = (1.0, 2.0)", b"NO TE   = 3", b"NOTE    = 'x''", b"NOTE    = 1E", b"=       = 5", b"NOTE    = T F"]
def m_badcard(legacy, strip_aux):
    """a malformed card as the LAST card of the primary header (what the keyword scan of the reader sees last), optionally in a
    legacy-layout file (one common ORDER key) and with every auxiliary card removed: combinations of header conditions that are
    individually harmless"""
    def f(rng, hd):
        p = hd[0]
        if legacy:
            nd = len(p.axes())
            vals = [p.key("ORDER%d" % i) for i in range(nd)]
            if None in vals or len(set(vals)) != 1:
                return None
            for i in range(1, nd):
                p.drop("ORDER%d" % i)
            i0 = p.find("ORDER0")
            p.cards[i0] = b"ORDER   " + p.cards[i0][8:]
        if strip_aux:
            p.cards = [c for c in p.cards if c[:8].strip() == b"" or any(c.startswith(s) for s in STRUCT_PREFIXES)]
            p.cards = [c for c in p.cards if not c.startswith(b"COMMENT   removed card")]
        p.cards.append(rng.choice(BAD_CARDS).ljust(80))
        return "badcard-%s%s" % ("legacy" if legacy else "ordern", "-noaux" if strip_aux else ""), serialise(hd)
    return f

def valid(kind):
    def f(rng, hd):
        if kind == "asis":
            return "valid", serialise(hd)
        if kind == "no-extents":
            i = ext_index(hd, "EXTENTS")
            if i is None:
                return None
            del hd[i]
            return "valid-no-extents", serialise(hd)
        if kind == "single-order":
            p = hd[0]
            nd = len(p.axes())
            vals = [p.key("ORDER%d" % i) for i in range(nd)]
            if None in vals or len(set(vals)) != 1:
                return None
            for i in range(1, nd):
                p.drop("ORDER%d" % i)
            i0 = p.find("ORDER0")
            p.cards[i0] = b"ORDER   " + p.cards[i0][8:]
            return "valid-single-order", serialise(hd)
        if kind == "reordered":
            rest = hd[1:]
            rng.shuffle(rest)
            hd[1:] = rest
            return "valid-reordered", serialise(hd)
        if kind == "lowercase-extname":
            for h in hd[1:]:
                nm = h.strkey("EXTNAME")
                if nm:
                    h.setstr("EXTNAME", nm.lower())
            return "valid-lowercase-extname", serialise(hd)
        if kind == "extra-hdu":
            hd.append(foreign_bintable_hdu())
            hd[-1].setstr("EXTNAME", "OTHER")
            return "valid-extra-hdu", serialise(hd)
    return f

MUTATIONS = [
    (3, valid("asis")), (1, valid("no-extents")), (1, valid("single-order")), (1, valid("reordered")), (1, valid("lowercase-extname")), (1, valid("extra-hdu")),
    (3, m_order("+1")), (3, m_order("-1")), (2, m_order("=huge")), (2, m_order("=negative")), (1, m_order("-missing")), (1, m_order("=float")), (1, m_order("=string")),
    (2, m_badcard(True, True)), (1, m_badcard(True, False)), (1, m_badcard(False, True)), (1, m_badcard(False, False)),
    (2, m_mod32("extents")), (1, m_mod32("knots")), (1, m_mod32("primary")), (1, m_mod32("order")),
    (1, m_order_single("negative")), (1, m_order_single("huge")), (1, m_order_single("same")), (1, m_order_single("float")),
    (3, m_naxis("+1", True)), (3, m_naxis("-1", True)), (2, m_naxis("=0", True)), (1, m_naxis("+1", False)), (1, m_naxis("-1", False)), (1, m_naxis("=0", False)), (1, m_naxis("=huge", False)),
    (1, m_naxis_count("-1")), (1, m_naxis_count("=0")), (1, m_naxis_count("+1")),
    (3, m_knots_len("+1")), (3, m_knots_len("-1")), (1, m_knots_len("=0")), (1, m_knots_len("header-only+1")),
    (4, m_order_vs_knots),
    (1, m_bitpix("primary", False)), (1, m_bitpix("primary", True)), (1, m_bitpix("knots", False)), (1, m_bitpix("knots", True)),
    (1, m_extname("renamed")), (1, m_extname("lowercase")), (1, m_extname("hduname")), (2, m_extname("duplicated")), (1, m_extname("swapped")), (1, m_extname("missing")), (1, m_extname("primary-shadow")),
    (2, m_ext("dropped-knots")), (1, m_ext("dropped-extents")), (1, m_ext("dropped-all")), (2, m_ext("reordered")), (1, m_ext("extents-resized")), (1, m_ext("extents-nan")),
    (1, m_ext("xtension-table")), (1, m_ext("extra-foreign")),
    (3, m_knots("nan")), (2, m_knots("inf")), (2, m_knots("neginf")), (4, m_knots("unsorted")), (1, m_knots("reversed")), (1, m_knots("allequal")), (1, m_knots("negzero")), (2, m_knots("hugespan")), (2, m_knots("hugeends")), (1, m_knots("tinyspan")),
    (3, m_byteflip("header")), (3, m_byteflip("data")), (2, m_byteflip("any")),
    (3, m_trunc("block")), (3, m_trunc("card")), (2, m_trunc("data")), (2, m_trunc("any")), (1, m_append),
    (1, foreign("empty-primary")), (1, foreign("bintable")), (1, foreign("asciitable")), (1, foreign("plain-image")), (1, foreign("image-with-orders")),
    (1, foreign("random")), (1, foreign("text")), (1, foreign("empty")), (1, foreign("simple-only")),
]
_TOTAL = sum(w for w, _ in MUTATIONS)

def mutate(rng, base_bytes):
    """one mutated file: (class, bytes). Retries until an applicable mutation is drawn."""
    for _ in range(50):
        r = rng.below(_TOTAL)
        for w, f in MUTATIONS:
            if r < w:
                break
            r -= w
        hd = [h.copy() for h in parse(base_bytes)]
        res = f(rng, hd)
        if res is not None:
            return res
    return "valid", base_bytes

def all_truncations(base_bytes):
    """every block boundary and every card boundary of a file (thorough tier: truncation at every boundary)"""
    hd = parse(base_bytes)
    cuts, pos = set(), 0
    for h in hd:
        cuts |= {pos + 80 * k for k in range(0, len(h.cards) + 2)}
        pos += len(h.bytes())
    cuts |= set(range(0, len(base_bytes), BLOCK))
    return [("trunc-every", base_bytes[:n]) for n in sorted(cuts) if n < len(base_bytes)]
