"""C19 — estimateMemory bounds the memory actually requested while loading and convolving.

Correspondence: the exact allocator event sequence (alloc/free, bytes) of splinetable<CountingAlloc>(path)
[+ convolve(dim, knots, n)] [+ destructor] and the value of estimateMemory(path, n, dim), produced by
harness/C19_harness.cpp from the repo working tree, must equal MemModel.read_trace / convolve_trace /
destroy_trace / estimate (extracted, extract/mem_driver.ml) on the shape of the same file, event by event.
Oracle (the property itself on the implementation): measured peak of live bytes <= estimateMemory's return,
and the same load+convolve completes under an allocator that refuses to exceed the estimate."""
import os, sys, json, shutil, hashlib, subprocess, glob
from concurrent.futures import ThreadPoolExecutor
sys.path.insert(0, os.path.dirname(os.path.dirname(os.path.abspath(__file__))))
from common import *

PROPERTIES_FILE = "Properties_C19"
ASSUMPTIONS = [
    "byte counts and sizes modelled as unbounded N (no size_t/uint64 wrap: tables that fit in memory)",
    "card_limits: strlen(key)+strlen(value) <= FLEN_CARD-1 = 80 for every auxiliary key as returned by cfitsio's fits_read_keyn (one 80-character card); checked on every file of this run",
    "valid_conv: the convolved dimension exists, n >= 1 and its coefficient count equals nknots-order-1; checked on every case of this run",
    "a FITS primary header always holds at least one key, so the reader always allocates the aux pointer array",
    "memory obtained by convolve's temporaries (operator new) and by cfitsio is not the table allocator's and is not counted (the property is about the Alloc template argument)",
    "the arena of the oracle is a capacity-limited allocator (refuses when live bytes would exceed the estimate): no fragmentation/alignment overhead is modelled",
    "model MemModel.v tied to the C++ by exact comparison of allocator event sequences and of the estimate on this run's files; the shape of each file is read with plain cfitsio calls in the harness and cross-checked against what the generator wrote",
]
TRUSTED_EXTRA = ["tools/translators/mem.py (sizes as compiled, FLEN_* of the installed cfitsio, the arithmetic of estimateMemory -> Generated_mem.v)",
                 "harness/C19_harness.cpp (CountingAlloc recorder, independent shape reader), extract/mem_driver.ml"]
EXTRA_COQ_TARGETS = ["MemModel"]

RULE = ("files written by the library's write_fits from in-memory tables of 1..6 dims, mixed orders 0..5, 0..50 auxiliary keys (random short / HIERARCH names, and names the FITS standard uses elsewhere: CTYPEn, TDIMn, CHECKSUM, DATE-OBS, ... — whole headers of them too) "
        "(short and HIERARCH keys, empty/short/long/numeric/quoted values) plus the shipped test tables, each with no convolution and with "
        "convolutions of 2..8 kernel knots in random dims of order >= 1 (thorough: also one order-0 dimension and one 1-knot kernel); non-trivial = the case has a convolution, or at least one auxiliary key, or >= 2 dims; "
        "distinct by (shape, n, dim)")

SHIPPED = sorted(glob.glob(os.path.join(REPO, "test", "test_data", "*.fits")))

# ------------------------------------------------------------------------------------------------ generation
ALNUM = "ABCDEFGHIJKLMNOPQRSTUVWXYZ0123456789"
# names the FITS standard / cfitsio give a meaning to in other contexts (world coordinates, table columns, checksums, observation
# metadata) but that are ordinary auxiliary keys of a spline file: stored, loaded through the allocator, and to be counted.
# (Keywords that change how cfitsio READS an image — BSCALE, BZERO, BLANK — and the HDU-version cards are left out.)
STD_KEYWORDS = (["%s%d" % (b, n) for b in ("CTYPE", "CUNIT", "CRVAL", "CRPIX", "CDELT", "CROTA", "TDIM", "TFORM", "TTYPE", "TUNIT", "TNULL", "TSCAL", "TZERO", "TDISP")
                 for n in (1, 2, 3, 4, 5, 6)] +
                ["CD1_1", "CD1_2", "CD2_1", "CD2_2", "PC1_1", "PC2_2", "BUNIT", "DATAMIN", "DATAMAX", "DATE-OBS", "TELESCOP", "INSTRUME", "OBSERVER",
                 "OBJECT", "AUTHOR", "REFERENC", "EQUINOX", "EPOCH", "RADESYS", "LONPOLE", "LATPOLE", "CHECKSUM", "DATASUM", "ORIGIN", "DATE", "TFIELDS",
                 "THEAP", "WCSAXES", "MJD-OBS", "TIMESYS", "CREATOR", "FILENAME"])
def gen_key(rng, i, std=False):
    if std:
        return STD_KEYWORDS[(i * 7 + rng.below(3)) % len(STD_KEYWORDS)]
    style = rng.choice(["short", "short", "short8", "hier", "hier", "hierlong"] * 4 + ["respfx", "stdkw", "stdkw"])
    if style == "stdkw":
        return rng.choice(STD_KEYWORDS)
    if style == "short":
        return "".join(rng.choice(ALNUM[:26]) for _ in range(rng.rint(1, 5))) + "%d" % i
    if style == "short8":
        return ("".join(rng.choice(ALNUM) for _ in range(8)))
    if style == "hier":
        return "K%d " % i + " ".join("".join(rng.choice(ALNUM[:26]) for _ in range(rng.rint(1, 7))) for _ in range(rng.rint(1, 4)))
    if style == "hierlong":
        return ("LONGKEY%d" % i) + "".join(rng.choice(ALNUM + "_") for _ in range(rng.rint(5, 50)))
    # keys the reader and the estimate both skip (reserved prefixes) but that do not disturb the table itself
    # ... and the exactly matched names of the HDU-name cards (reserved since the fix of C06:aux-key:EXTNAME-shadows-KNOTSn): a primary
    # header of a foreign file may carry them; with a value that names none of the images looked for (gen_file) they are skipped, not stored
    return rng.choice(["TYPEX", "EXTENDX", "COMMENTS", "SIMPLEX", "BITPIXEL", "EXTNAME", "HDUNAME", "EXTNAME"])[:8]

def gen_value(rng):
    style = rng.choice(["empty", "short", "short", "num", "long", "max", "quote", "spaces", "huge"])
    if style == "empty":
        return ""
    if style == "short":
        return "".join(rng.choice(ALNUM.lower() + " ") for _ in range(rng.rint(1, 12)))
    if style == "num":
        return rng.choice(["1", "-17", "3.25", "1e10", "T", "42  "])
    if style == "long":
        return "".join(rng.choice(ALNUM.lower()) for _ in range(rng.rint(20, 66)))
    if style == "max":
        return "m" * rng.rint(66, 70)
    if style == "quote":
        return rng.choice(["it's", "'q'", "''", "a'b'c", "'"]) + "x" * rng.rint(0, 40)
    if style == "spaces":
        return " " * rng.rint(1, 5) + "v" + " " * rng.rint(0, 5)
    return "h" * rng.rint(71, 120)

def gen_file(rng, boundary=False):
    """returns the dict describing one file to be written by the library"""
    nd = rng.choice([1, 1, 2, 2, 3, 3, 4, 5, 6])
    orders = [rng.rint(0, 5) for _ in range(nd)] if rng.chance(0.8) else [rng.rint(0, 5)] * nd
    budget = 3000 if not boundary else 40
    nk = []
    prefer = None
    if not boundary and rng.chance(0.12):
        # one LONG knot vector (larger than the estimate's rounding slack of 1-2 kB) in a dimension that is NOT convolved:
        # any temporary copy of an untouched dimension's data that coexists with the new arrays then exceeds the estimate
        nd = rng.choice([2, 2, 3])
        orders = [rng.rint(1, 3) for _ in range(nd)]
        long_d = rng.below(nd)
        for d in range(nd):
            ax = rng.rint(300, 900) if d == long_d else max(rng.rint(2, 6), orders[d] + 1)
            nk.append(ax + orders[d] + 1)
        prefer = [d for d in range(nd) if d != long_d]
    if not boundary and not nk and rng.chance(0.1):
        # an axis with a single coefficient (order 0, two knots) next to larger ones, convolved along exactly that axis
        nd = rng.choice([2, 2, 3])
        orders = [rng.rint(0, 3) for _ in range(nd)]
        one = rng.below(nd)
        orders[one] = 0
        for d in range(nd):
            ax = 1 if d == one else rng.rint(12, 40)
            nk.append(max(ax, orders[d] + 1) + orders[d] + 1)
        prefer = [one]
    for d in range(nd if not nk else 0):
        maxax = min(24, max(1, int(round(budget ** (1.0 / nd)))))   # convolve costs naxis^2 * n blossoms, each exponential in order+n
        ax = rng.rint(1, max(1, maxax)) if not rng.chance(0.15) else 1
        ax = max(ax, orders[d] + 1)       # the reader refuses fewer than 2*order+2 knots (fix 46293ba)
        nk.append(ax + orders[d] + 1)
    if boundary:
        naux = rng.choice([20, 35, 50, 50, 50])
    else:
        naux = rng.choice([0, 0, 1, 2, 3, 5, 8, 13, 21, 34, 50, 50, rng.rint(0, 50)])
    aux = []
    allstd = rng.chance(0.35 if boundary else 0.1)      # a header made of standard-keyword names only
    used = set()
    for i in range(naux):
        k = gen_key(rng, i, std=allstd)
        if allstd and k in used:
            cand = [x for x in STD_KEYWORDS if x not in used]
            if not cand:
                break
            k = rng.choice(cand)
        used.add(k)
        v = gen_value(rng) if not boundary else rng.choice(["m" * 68, "h" * 100, gen_value(rng)])
        aux.append([k, v])
    f = {"periods": int(rng.chance(0.3)), "orders": orders, "nknots": nk, "aux": aux}
    if prefer:
        f["prefer_conv"] = prefer
    return f

def gen_convs(rng, f, k):
    """no convolution + k convolutions. Dimensions of order 0 and single-knot kernels are not convolved in generated
    cases: convolve.cpp's factorial(0) runs its loop 2^32 times (defect D4, C14's subject) — ~7 s per call."""
    nd = len(f["orders"])
    cs = [[0, 0]]
    # (order-0 dimensions are convolved too since factorial(0) was repaired — fix 11b1640; the docstring's restriction is history)
    ok = list(range(nd))
    if f.get("prefer_conv"):
        ok = list(f["prefer_conv"]) or ok
    for _ in range(k):
        if ok:
            cs.append([rng.choice([2, 2, 3, 3, 4, 5, 6, 7, 8]), rng.choice(ok)])
    return cs

def hx(s):
    return s.encode().hex() if s else "-"

def gen_line(path, f):
    w = ["gen", path, str(f["periods"]), str(len(f["orders"]))] + [str(o) for o in f["orders"]] + [str(k) for k in f["nknots"]] + [str(len(f["aux"]))]
    for k, v in f["aux"]:
        w += [hx(k), hx(v)]
    return " ".join(w)

RESERVED = ["BITPIX", "SIMPLE", "TYPE", "ORDER", "NAXIS", "PERIOD", "EXTEND", "COMMENT"]
RESERVED_EXACT = ["", "END", "HISTORY", "CONTINUE", "PCOUNT", "GCOUNT", "EXTNAME", "HDUNAME"]     # of these the generator produces EXTNAME / HDUNAME only
def expected_naux(f):
    return sum(1 for k, _ in f["aux"] if not any(k.startswith(p) for p in RESERVED) and k not in RESERVED_EXACT)

# ------------------------------------------------------------------------------------------------ execution
def parse_blocks(txt):
    blocks, cur = [], []
    for line in txt.split("\n"):
        if line == "end":
            blocks.append(cur); cur = []
        elif line != "":
            cur.append(line)
    return blocks

def kv(block):
    d = {}
    for l in block:
        a, _, b = l.partition(" ")
        d[a] = b
    return d

class Runner:
    def __init__(self):
        self.harness = build_harness("C19_harness", ["C19_harness.cpp"], flavour="checked", repo_srcs=CORE_CPP)
        try:
            self.model = build_extracted("mem")
            self.model_error = None
        except BuildError as e:
            # Generated_mem.v / MemModel.v no longer build (translator failed closed): the oracle still runs on the implementation alone
            self.model, self.model_error = None, str(e)[-1500:]
        self.tmp = os.path.join(VERIF, ".build", "C19_files-%d" % os.getpid())
        shutil.rmtree(self.tmp, ignore_errors=True)
        os.makedirs(self.tmp)
        self.seq = 0
    def cleanup(self):
        shutil.rmtree(self.tmp, ignore_errors=True)

    def run_cases(self, cases):
        """cases: list of {"gen": filedict | None, "path": shipped path | None, "convs": [[n,dim],...]}
        returns list of per-(case,conv) result dicts"""
        chunks = [cases[i::NCPU] for i in range(NCPU)]
        chunks = [c for c in chunks if c]
        base = self.seq
        self.seq += len(cases) + 1
        with ThreadPoolExecutor(max_workers=len(chunks) or 1) as ex:
            parts = list(ex.map(lambda a: self._run_chunk(a[1], "%d_%d" % (base, a[0])), enumerate(chunks)))
        return [r for p in parts for r in p]

    def _run_chunk(self, cases, tag):
        env = dict(os.environ, ASAN_OPTIONS="detect_leaks=0")
        cmds, paths = [], []
        for i, c in enumerate(cases):
            if c.get("gen") is not None:
                path = os.path.join(self.tmp, "t%s_%d.fits" % (tag, i))
                cmds.append(gen_line(path, c["gen"]))
            else:
                path = c["path"] if os.path.isabs(c["path"]) else os.path.join(REPO, c["path"])
                cmds.append("sizes")
            paths.append(path)
            cmds.append("shape " + path)
            for n, dim in c["convs"]:
                cmds.append("run %s %d %d" % (path, n, dim))
        p = subprocess.run([self.harness], input="\n".join(cmds) + "\n", stdout=subprocess.PIPE, stderr=subprocess.PIPE, text=True, env=env, timeout=1500)
        blocks = parse_blocks(p.stdout)
        if p.returncode != 0 or len(blocks) != len(cmds):
            # find the first command without an answer: the harness died there (sanitizer report or crash)
            bad = cmds[len(blocks)] if len(blocks) < len(cmds) else "?"
            return [{"case": cases[0], "conv": [0, 0], "fatal": "harness exited %d at command %r: %s" % (p.returncode, bad[:300], p.stderr[-1500:])}]
        # model
        res, bi, mlines = [], 0, []
        for c, path in zip(cases, paths):
            g = blocks[bi]; sh = blocks[bi + 1]; bi += 2
            runs = []
            for n, dim in c["convs"]:
                runs.append(blocks[bi]); bi += 1
            ok_gen = (c.get("gen") is None) or (g and g[0] == "gen ok")
            shape = sh[0] if sh and sh[0].startswith("shape nd=") else None
            for (n, dim), rb in zip(c["convs"], runs):
                r = {"case": c, "conv": [n, dim], "impl": kv(rb), "shape": shape, "gen_ok": ok_gen, "gen_msg": (g[0] if g else "")}
                if shape:
                    f = dict(x.split("=") for x in shape.split()[1:])
                    r["shape_fields"] = f
                    mlines.append("%s %s %s %s %d %d" % (f["nd"], f["dims"], f["aux"], f["extaux"], n, dim))
                res.append(r)
            if c.get("gen") is not None:
                try:
                    os.remove(path)
                except OSError:
                    pass
        if self.model is None:
            return res
        pm = subprocess.run([self.model], input="\n".join(mlines) + "\n", stdout=subprocess.PIPE, stderr=subprocess.PIPE, text=True, timeout=3000)
        mblocks = parse_blocks(pm.stdout)
        mi = 0
        for r in res:
            if r["shape"]:
                r["model"] = kv(mblocks[mi]) if mi < len(mblocks) else {}
                mi += 1
        return res

# ------------------------------------------------------------------------------------------------ judging
def judge(r):
    """returns (correspondence failures, oracle failures, hypothesis notes): lists of (signature, text)"""
    corr, orc, hyp = [], [], []
    if "fatal" in r:
        return [("C19:harness:crash", r["fatal"])], [], []
    c, (n, dim) = r["case"], r["conv"]
    if not r["gen_ok"]:
        r["skipped"] = True      # cfitsio refused a key/value combination (key too long for its value): not a table file
        return [], [], []
    if not r["shape"]:
        return [("C19:harness:shape-unreadable", "shape reader failed")], [], []
    f, im, mo = r["shape_fields"], r["impl"], r.get("model")
    have_model = mo is not None
    mo = mo or {}
    if c.get("gen") is not None:
        g = c["gen"]
        exp = ",".join("%d:%d:%d" % (k - o - 1, k, o) for k, o in zip(g["nknots"], g["orders"]))
        got_naux = 0 if f["aux"] == "-" else len(f["aux"].split(","))
        if f["dims"] != exp or got_naux != expected_naux(g):
            corr.append(("C19:harness:shape-differs-from-generated", "shape read back %s aux=%d, generated %s aux=%d" % (f["dims"], got_naux, exp, expected_naux(g))))
    if "exception" in im or "est" not in im or im.get("est", "").startswith("error"):
        orc.append(("C19:%s:exception" % ("load" if n == 0 else "load+convolve"), "exception on a well-formed file: %s %s" % (im.get("exception"), im.get("est"))))
        return corr, orc, hyp
    # correspondence, event by event
    for key, what in [] if not have_model else (("est", "estimate"), ("load", "load-trace"), ("conv", "conv-trace"), ("destroy", "destroy-trace")):
        if im.get(key, "").strip() != mo.get(key, "<none>").strip():
            a, b = im.get(key, "").split(), mo.get(key, "").split()
            k = next((i for i in range(min(len(a), len(b))) if a[i] != b[i]), min(len(a), len(b)))
            corr.append(("C19:correspondence:" + what, "%s differs at event %d: implementation %s, model %s (impl %d events, model %d)" % (
                what, k, a[k] if k < len(a) else "<end>", b[k] if k < len(b) else "<end>", len(a), len(b))))
    pk = im.get("peak", "").split()
    ipeak = int(pk[0]) if pk else -1
    if have_model and str(ipeak) != mo.get("peak"):
        corr.append(("C19:correspondence:peak", "measured peak %d, model peak %s" % (ipeak, mo.get("peak"))))
    # the property itself
    est = int(im["est"])
    phase = "load" if n == 0 else "load+convolve"
    if ipeak > est:
        naux = 0 if f["aux"] == "-" else len(f["aux"].split(","))
        auxbytes = sum(8 + 16 + int(a.split(":")[0]) + 1 + int(a.split(":")[1]) + 1 for a in f["aux"].split(",")) if naux else 0
        cls = "aux-keys" if ipeak - auxbytes <= est else "table-storage"
        orc.append(("C19:%s:peak>estimate:%s" % (phase, cls), "peak of live bytes %d exceeds estimateMemory = %d (n=%d dim=%d, %d aux keys holding %d bytes)" % (ipeak, est, n, dim, naux, auxbytes)))
    if im.get("arena") != "ok":
        if not orc:
            orc.append(("C19:%s:arena-of-estimated-size-fails" % phase, "an allocator limited to the estimated %d bytes refused a request" % est))
    # hypotheses of the theorems on this real case
    h = dict(x.split("=") for x in mo.get("hyps", "").split()) if mo.get("hyps") else {}
    if not have_model:
        return corr, orc, hyp
    if h.get("card_limits") != "1":
        hyp.append(("C19:hypothesis:card_limits-false-on-real-file", "strlen(key)+strlen(value) > 80 for a key read back by cfitsio: " + f["aux"]))
    if h.get("valid_conv") != "1":
        hyp.append(("C19:hypothesis:valid_conv-false-on-real-case", "valid_conv false for dims %s n=%d dim=%d" % (f["dims"], n, dim)))
    return corr, orc, hyp

def payload_of(r, verdict):
    return {"case": r["case"], "conv": r["conv"], "shape": r.get("shape"), "impl": r.get("impl"), "model": r.get("model"), "oracle": verdict}

# ------------------------------------------------------------------------------------------------ entry point
def load_corpus():
    d = os.path.join(VERIF, "corpus", "C19")
    out = []
    if os.path.isdir(d):
        for fn in sorted(os.listdir(d)):
            if fn.endswith(".json"):
                j = json.load(open(os.path.join(d, fn)))
                out.append({"gen": j.get("gen"), "path": j.get("path"), "convs": j["convs"], "corpus": fn})
    return out

def run(info, out):
    R = Runner()
    try:
        return _run(info, out, R)
    finally:
        R.cleanup()

def _run(info, out, R):
    if info.get("replay"):
        p = json.load(open(info["replay"]))
        if p.get("no_failing_input_found") and "case" not in p:
            print("replay file names a broken obligation, not an input: %s" % p.get("broken"))
            return {"evaluations": 1, "distinct_nontrivial": 0}
        c = dict(p["case"]); c["convs"] = [p["conv"]]
        for r in R.run_cases([c]):
            corr, orc, hyp = judge(r)
            print("replay: conv=%s shape=%s" % (r["conv"], r.get("shape")))
            print("  implementation: est=%s peak=%s arena=%s" % (r.get("impl", {}).get("est"), r.get("impl", {}).get("peak"), r.get("impl", {}).get("arena")))
            print("  model:          est=%s peak=%s" % (r.get("model", {}).get("est"), r.get("model", {}).get("peak")))
            for sig, what in corr + orc + hyp:
                print("  FAILS: %s [%s]" % (what, sig))
                out.violation(sig, what, payload_of(r, "replayed"))
            if not (corr + orc + hyp):
                print("  property holds and model agrees on this input")
        return {"evaluations": 1, "distinct_nontrivial": 1}

    rng = Rng(info["seed"])
    nfiles = 200 if info["tier"] == "quick" else 10000
    cases = load_corpus()
    ncorpus = len(cases)
    for pth in SHIPPED:
        nd = int(os.path.basename(pth).split("_")[2][0])
        r2 = rng.fork(pth[len(REPO):])
        cases.append({"gen": None, "path": os.path.relpath(pth, REPO), "convs": [[0, 0], [3, 0]] + [[r2.rint(2, 8), r2.below(nd)] for _ in range(3)]})
    for i in range(nfiles):
        f = gen_file(rng.fork("file%d" % i), boundary=(i % 10 == 9))
        cases.append({"gen": f, "path": None, "convs": gen_convs(rng.fork("conv%d" % i), f, 2)})
    # files whose extension HDUs are NOT in the order write_fits produces (the readers find KNOTSn / EXTENTS by name, so any
    # order is a valid spline file): written by the library first, then the HDUs are rearranged byte-wise
    import C07mut
    nre = 0
    for i in range(12 if info["tier"] == "quick" else 300):
        r3 = rng.fork("reord%d" % i)
        f = gen_file(r3.fork("f"), boundary=False)
        common = None
        if r3.chance(0.4):
            common = min(f["orders"])
            f["orders"] = [common] * len(f["orders"])
        if len(f["orders"]) < 2 and r3.chance(0.7) and common is None:
            continue
        src = os.path.join(R.tmp, "reord_src_%d.fits" % i)
        pgen = subprocess.run([R.harness], input=gen_line(src, f) + "\n", stdout=subprocess.PIPE, stderr=subprocess.PIPE, text=True,
                              env=dict(os.environ, ASAN_OPTIONS="detect_leaks=0"), timeout=300)
        if pgen.returncode != 0 or not os.path.exists(src):
            continue
        hd = C07mut.parse(open(src, "rb").read())
        rest = hd[1:]
        how = r3.choice(["reverse", "extents-first", "shuffle", "swap-first-two"])
        if how == "reverse":
            rest = rest[::-1]
        elif how == "extents-first":
            rest = [h for h in rest if h.strkey("EXTNAME") == "EXTENTS"] + [h for h in rest if h.strkey("EXTNAME") != "EXTENTS"]
        elif how == "shuffle":
            r3.shuffle(rest)
        elif len(rest) >= 2:
            rest[0], rest[1] = rest[1], rest[0]
        # legacy + modern header at once: a table whose orders are all equal gets the common ORDER card with that value, and its
        # ORDER0..ORDERn-1 cards are set to LARGER values (the reader lets the common card win, so the file is the same well-formed
        # table; the estimate must be about the table the reader builds)
        if common is not None:
            hd[0].set("ORDER", str(common))
            for d in range(len(f["orders"])):
                hd[0].set("ORDER%d" % d, str(common + r3.rint(1, 4)))
            how += "+common-ORDER"
        dst = os.path.join(R.tmp, "reord_%d.fits" % i)
        open(dst, "wb").write(C07mut.serialise([hd[0]] + rest))
        os.remove(src)
        cases.append({"gen": None, "path": dst, "convs": gen_convs(r3.fork("conv"), f, 2), "reordered": how})
        nre += 1
    if info["tier"] == "thorough":
        # the convolutions gen_convs avoids for time (factorial(0) loops 2^32 times, D4): one of each kind on the real code
        cases.append({"gen": {"periods": 0, "orders": [0, 2], "nknots": [4, 7], "aux": [["SLOW1", "order-0 dimension convolved"]]}, "path": None, "convs": [[3, 0]]})
        # (a one-knot kernel is refused by convolve since the fix "convolve validates its arguments" (6842ad8); the model's
        #  valid_conv still allows n = 1, which only makes C19_bound more general; it is no longer run on the real code)
        cases.append({"gen": {"periods": 1, "orders": [2, 1], "nknots": [6, 5], "aux": []}, "path": None, "convs": [[2, 1]]})
    results = R.run_cases(cases)

    stats = {"corr_fail": 0, "oracle_fail": 0}
    distinct, dist_nd, dist_naux, dist_n, samples = set(), {}, {}, {}, []
    min_slack = None
    traces_ok = 0
    quoted_mismatch = 0
    def consume(results, searching=False):
        nonlocal min_slack, traces_ok, quoted_mismatch
        broke = False
        for r in results:
            corr, orc, hyp = judge(r)
            for sig, what in orc:
                out.violation(sig, what, payload_of(r, "property fails on the implementation"))
                stats["oracle_fail"] += 1
            for sig, what in hyp:
                out.violation(sig, what, payload_of(r, "theorem hypothesis false on a real file"))
            if corr:
                stats["corr_fail"] += 1
                broke = True
                r["_corr"] = corr
            if r.get("skipped"):
                stats["gen_rejected"] = stats.get("gen_rejected", 0) + 1
                continue
            if "fatal" in r or not r.get("shape") or "est" not in r.get("impl", {}):
                continue
            if not corr:
                traces_ok += 1
            f = r["shape_fields"]; n, dim = r["conv"]
            key = (f["dims"], f["aux"], n, dim)
            naux = 0 if f["aux"] == "-" else len(f["aux"].split(","))
            if n > 0 or naux > 0 or int(f["nd"]) >= 2:
                distinct.add(hashlib.sha256(repr(key).encode()).hexdigest())
            dist_nd[f["nd"]] = dist_nd.get(f["nd"], 0) + 1
            b = "0" if naux == 0 else "1-5" if naux <= 5 else "6-20" if naux <= 20 else "21-49" if naux < 50 else "50"
            dist_naux[b] = dist_naux.get(b, 0) + 1
            dist_n[str(n)] = dist_n.get(str(n), 0) + 1
            try:
                pk = int(r["impl"]["peak"].split()[0]); est = int(r["impl"]["est"])
                if min_slack is None or est - pk < min_slack[0]:
                    min_slack = (est - pk, f["dims"], naux, n, dim)
                if "badfree 1" in r["impl"]["peak"]:
                    quoted_mismatch += 1
            except (ValueError, KeyError):
                pass
            if len(samples) < 3 and n > 0 and naux > 0:
                samples.append({"dims(naxis:nknots:order)": f["dims"], "aux(keylen:vallen:strip)": f["aux"][:200], "n": n, "dim": dim,
                                "estimate": r["impl"]["est"], "peak": r["impl"]["peak"], "load_trace": r["impl"]["load"][:300], "conv_trace": r["impl"]["conv"][:300]})
        return broke
    broke = consume(results)
    if R.model is None:
        broke = True
    evaluations = len(results)
    searched = 0
    if (not info["proof_ok"] or broke) and not stats["oracle_fail"]:
        # model and code disagree, or a proof obligation broke: look harder for an input on which the PROPERTY fails
        s_rng = rng.fork("search")
        extra = []
        for i in range(nfiles * 10 if info["tier"] == "quick" else nfiles):
            f = gen_file(s_rng.fork("s%d" % i), boundary=(i % 2 == 0))
            extra.append({"gen": f, "path": None, "convs": gen_convs(s_rng.fork("sc%d" % i), f, 3)})
        res2 = R.run_cases(extra)
        searched = len(res2)
        consume(res2, searching=True)
        results = results + res2
    if broke or stats["corr_fail"]:
        # report each kind of correspondence break once; with a failing input if the oracle found one, else flagged
        seen = set()
        for r in results:
            for sig, what in r.get("_corr", []):
                if sig in seen:
                    continue
                seen.add(sig)
                pl = payload_of(r, "model and implementation disagree; property %s on the implementation for the inputs tried" % (
                    "FAILS" if stats["oracle_fail"] else "holds"))
                if not stats["oracle_fail"]:
                    pl["no_failing_input_found"] = True
                    pl["broken"] = "correspondence MemModel vs C++: " + sig
                out.violation(sig, what, pl)
    if R.model is None and not stats["oracle_fail"]:
        out.violation("C19:model-does-not-build", "the translated model no longer builds against the tree and no failing input was found",
                      {"no_failing_input_found": True, "broken": "Generated_mem.v / MemModel.v build: " + (R.model_error or "")})
    if quoted_mismatch:
        out.notes.append("side observation (C20 territory, not part of C19's statement): in %d cases the destructor passed deallocate a byte count smaller than "
                         "the block's (values stored without their FITS quotes are freed with strlen+1; they were allocated with the quoted length)" % quoted_mismatch)
    cov = {"evaluations": evaluations + searched, "distinct_nontrivial": len(distinct), "rule": RULE, "samples": samples,
           "traces_validated_against_impl": traces_ok, "corpus_cases": ncorpus, "shipped_files": len(SHIPPED), "generated_files": nfiles,
           "search_evaluations": searched,
           "input_distribution": {"cases_by_ndim": dist_nd, "cases_by_aux_key_count": dist_naux, "cases_by_kernel_knots(0=no convolution)": dist_n},
           "min_slack_bytes(estimate-peak)": {"slack": min_slack[0], "dims": min_slack[1], "naux": min_slack[2], "n": min_slack[3], "dim": min_slack[4]} if min_slack else None,
           "destructor_size_mismatch_cases": quoted_mismatch,
           "cases_rejected_by_cfitsio_on_write": stats.get("gen_rejected", 0), "correspondence_failures": stats["corr_fail"], "oracle_failures": stats["oracle_fail"]}
    return cov
