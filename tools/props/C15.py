"""C15 — permuting dimensions relabels axes without changing the function.

Tie: harness/C15_harness.cpp builds tables in memory (1..6 dims, pairwise different orders / axis lengths / knot vectors /
extents / periods / padding, distinct coefficient values), applies permutations through splinetable::permuteDimensions and the
C wrapper splinetable_permute and dumps every member (integers, and bit patterns of every double/float); the extracted
PermModel (extract/perm_driver.ml) starts from the harness' dump of the initial table and must produce the identical dump.
Oracle: the property's own statement evaluated on the implementation's dumps with independent index arithmetic (Python).
"""
import itertools, math, os, sys, json, subprocess
sys.path.insert(0, os.path.dirname(os.path.dirname(os.path.abspath(__file__))))
from common import *
import evalfam, oracle_exact
from fractions import Fraction

PROPERTIES_FILE = "Properties_C15"
ASSUMPTIONS = [
    "theorems are about PermModel.permute_checked (hand-written transcription of permute.h) for EVERY table with ndim >= 1, positive axis lengths, "
    "row-major stored strides and |coefficients| = product of axis lengths, every permutation and every argument vector; element types abstract "
    "(so exact relocation holds for all bit patterns)",
    "unbounded integers: uint64/uint32 index arithmetic of the code is exact for tables that fit in memory (ncoeffs < 2^64, ndim < 2^32)",
    "model tied to the C++ by exact comparison of complete table dumps (member function and C wrapper, -O3 and ASan/UBSan builds) on this run's cases",
    "'same function' is proved as an identity over a commutative ring (full tensor-product sum); on IEEE floats it is checked against the exact "
    "rational value of the original table within the C01 rounding bound, not proved",
]
TRUSTED_EXTRA = ["extract/perm_driver.ml (string tokens as abstract element types), harness/C15_harness.cpp (table construction through private members, dump)"]

FIELDS = ["st", "nd", "order", "nknots", "naxes", "strides", "knots", "ext", "per", "coef"]
ERRS = ("Length", "TooLarge", "Duplicate", "Missing")

# ------------------------------------------------------------------------------------------------ generation
def distinct_sample(rng, lo, hi, n):
    xs = list(range(lo, hi + 1))
    rng.shuffle(xs)
    return xs[:n]

def gen_spec(rng, nd, max_coefs, evaluable=True):
    """table with pairwise different orders, axis lengths, knot counts (when possible), knots, extents, periods, paddings"""
    for attempt in range(200):
        orders = distinct_sample(rng, 0, 5, nd)
        naxes = []
        ok = True
        for o in orders:
            cands = [a for a in range(o + 1, o + 1 + (7 if nd <= 3 else 3)) if a not in naxes]
            if not cands:
                ok = False
                break
            naxes.append(rng.choice(cands))
        if not ok:
            continue
        n = 1
        for a in naxes:
            n *= a
        nk = [a + o + 1 for a, o in zip(naxes, orders)]
        if n <= max_coefs and (len(set(nk)) == nd or attempt > 100):
            break
    else:
        orders = list(range(nd)); naxes = [o + 1 for o in orders]; n = math.factorial(nd)
    return build_spec(rng, orders, naxes, evaluable)

LARGE_SHAPES = {
    # whole tables at and around the sizes where an implementation would switch to a blocked / vectorised / parallel copy:
    # >= 2^16 and (thorough) >= 2^20 coefficients, axis lengths that are exact multiples of 8/16/32/64 next to ones that are one off
    "quick": [(256, 300), (300, 320), (257, 255), (64, 32, 40), (33, 64, 31), (16, 17, 16, 16)],
    "thorough": [(256, 300), (300, 320), (257, 255), (512, 128), (129, 512), (64, 32, 40), (33, 64, 31), (40, 41, 48), (16, 17, 16, 16), (8, 16, 24, 32),
                 (1024, 1024), (1023, 1025), (128, 64, 128), (7, 8, 9, 10, 11, 16)],
}

def gen_large_spec(rng, shape):
    nd = len(shape)
    orders = distinct_sample(rng, 0, 5, nd)
    spec = build_spec(rng, orders, list(shape), True)
    # PermModel.relocate is a literal list model (one list update per coefficient: quadratic, and not tail recursive); on these
    # tables the implementation is judged by the statement of the theorems proved about it (C15_coeff_relocated, C15_attributes,
    # C15_shape: the oracle below), which by C15_coeff_relocation_determines_the_array is the same as comparing the coefficient
    # array with the model's output
    spec["large"] = 1
    return spec

def build_spec(rng, orders, naxes, evaluable=True):
    nd = len(orders)
    n = 1
    for a in naxes:
        n *= a
    dims = []
    for i, (o, a) in enumerate(zip(orders, naxes)):
        extra = a - (o + 1)
        style = rng.choice(["uniform", "irregular", "integer"] if evaluable else ["uniform", "irregular", "integer", "repeated", "wild"])
        scale = 10.0 ** rng.rint(-2, 2)
        offset = (rng.unit() * 20 - 10) * scale
        kn = evalfam.gen_knots(rng, o, extra, style, scale, offset)
        if rng.chance(0.5):
            e0, e1 = kn[o], kn[a]
        else:
            e0, e1 = 100.0 * (i + 1) + rng.unit(), 1000.0 * (i + 1) + rng.unit()
        per = 0.0 if (i == 0 and rng.chance(0.3)) else (i + 1) * 3.25 + rng.unit()
        dims.append({"order": o, "pad": hexd(7000.0 * (i + 1) + rng.rint(0, 99)), "e0": hexd(e0), "e1": hexd(e1), "per": hexd(per),
                     "knots": [hexd(x) for x in kn]})
    style = rng.choice(["index", "rand", "rand", "signedzero"])
    coefs, seen = [], set()
    for k in range(n):
        c = to_f32(k + 1.0) if style == "index" else to_f32((rng.unit() * 2 - 1) * 10.0 ** rng.rint(-2, 2))
        while hexf(c) in seen:
            c = to_f32(c * 1.0000002 + 1e-3)
        seen.add(hexf(c))
        coefs.append(c)
    if style == "signedzero" and n >= 2:
        coefs[rng.below(n)] = 0.0
        j = rng.below(n)
        if coefs[j] != 0.0:
            coefs[j] = -0.0
    return {"ndim": nd, "hasper": 1 if rng.chance(0.75) else 0, "dims": dims, "coefs": [hexf(c) for c in coefs]}

def spec_lines(tid, s):
    out = ["T %s %d %d" % (tid, s["ndim"], s["hasper"])]
    for d in s["dims"]:
        out.append("D %d %d %s %s %s %s %s" % (d["order"], len(d["knots"]), d["pad"], d["e0"], d["e1"], d["per"], " ".join(d["knots"])))
    out.append("C %d %s" % (len(s["coefs"]), " ".join(s["coefs"])))
    return out

def pstr(p):
    return ",".join(str(j) for j in p) if p else "-"
def op_line(tag, op):
    if op[0] == "S":
        return "S %s %s %s" % (tag, op[1], " ".join(pstr(p) for p in op[2]))
    if op[0] == "E":
        return "E %s %s %s" % (tag, pstr(op[1]), " ".join(op[2]))
    return "I %s" % tag

def inverse(p):
    q = [0] * len(p)
    for i, j in enumerate(p):
        q[j] = i
    return q

def is_perm(p, nd):
    return sorted(p) == list(range(nd))

def malformed(rng, nd):
    """(class, vector) — every kind of argument that is not a permutation of 0..nd-1"""
    base = list(range(nd)); rng.shuffle(base)
    out = [("short", base[:-1]), ("long", base + [rng.below(nd)]), ("long-valid-prefix", base + [nd]), ("empty", [])]
    big = rng.choice([nd, nd + 1, 2 ** 32, 2 ** 32 + rng.below(nd), 2 ** 63, 2 ** 64 - 1])
    b = list(base); b[rng.below(nd)] = big
    out.append(("out-of-range", b))
    if nd >= 2:
        b = list(base); i = rng.below(nd); j = (i + 1 + rng.below(nd - 1)) % nd; b[i] = b[j]
        out.append(("duplicate", b))
        b = list(base); b[0] = b[-1]; b[-1] = nd + 3                      # duplicate seen first? no: the too-large index comes later
        out.append(("duplicate-then-large" if nd > 2 else "dup-large", b))
        b = list(base); b[-1] = b[0]; b[0] = 2 ** 40
        out.append(("large-then-duplicate", b))
        out.append(("all-equal", [rng.below(nd)] * nd))
    return out

def gen_cases(rng, tier, scale=1):
    """list of (spec, [op]) ; op = ("I",) | ("S", api, [perm,...]) | ("E", perm, [x hex])"""
    thorough = tier == "thorough"
    plan = []   # (nd, ntables, nperms or None for exhaustive)
    if not thorough:
        plan = [(1, 2, None), (2, 3, None), (3, 3, None), (4, 2, None), (5, 2, 25), (6, 2, 25)]
    else:
        plan = [(1, 3, None), (2, 4, None), (3, 6, None), (4, 6, None), (5, 4, None), (6, 16, 125)]
    cases = []
    for nd, ntab, nperm in plan:
        for ti in range(ntab * scale):
            spec = gen_spec(rng, nd, 900 if nd <= 5 else 2600)
            ops = [("I",)]
            if nperm is None:
                perms = [list(p) for p in itertools.permutations(range(nd))]
            else:
                perms = []
                for _ in range(nperm):
                    p = list(range(nd)); rng.shuffle(p); perms.append(p)
            et = spec_table(spec)
            for k, p in enumerate(perms):
                ops.append(("S", "m", [p]))
                ops.append(("S", "m", [p, inverse(p)]))
                if k % 3 == 0:
                    ops.append(("S", "c", [p]))
                    ops.append(("S", "c", [p, inverse(p)]))
                if k % 4 == 0 or nd <= 3:
                    xs, _ = evalfam.gen_point(rng, et, ["mid", "mid", "rand", "knot", "lmargin", "rmargin", "full_lo"])
                    ops.append(("E", p, [hexd(x) for x in xs]))
                if k % 5 == 1 and nd >= 2:
                    q = list(range(nd)); rng.shuffle(q)
                    ops.append(("S", "m", [p, q]))          # composition of two permutations
            for cls, b in malformed(rng, nd):
                ops.append(("S", "m", [b]))
                if len(b) == nd:
                    ops.append(("S", "c", [b]))
                p = rng.choice(perms)
                ops.append(("S", "m", [p, b]))              # rejection after a successful permutation keeps the permuted table
                ops.append(("S", "m", [b, p]))
            cases.append((spec, ops))
    if scale == 1:
        shapes = LARGE_SHAPES["thorough" if thorough else "quick"]
        for shape in shapes:
            spec = gen_large_spec(rng, shape)
            nd = len(shape)
            perms = [list(p) for p in itertools.permutations(range(nd))]
            if len(perms) > 6:
                rng.shuffle(perms); perms = perms[:4] + [list(reversed(range(nd)))]
            et = spec_table(spec)
            ops = [("I",)]
            for k, p in enumerate(perms):
                ops.append(("S", "m", [p]))
                if k % 2 == 1 or nd == 2:
                    ops.append(("S", "m", [p, inverse(p)]))
                if k % 3 == 1:
                    ops.append(("S", "c", [p]))
                for _ in range(2):
                    xs, _ = evalfam.gen_point(rng, et, ["mid", "rand", "full_lo", "rmargin", "rmargin"])
                    ops.append(("E", p, [hexd(x) for x in xs]))
            cases.append((spec, ops))
    return cases

def spec_table(spec):
    return evalfam.Table([d["order"] for d in spec["dims"]], [[dfrom(int(h, 16)) for h in d["knots"]] for d in spec["dims"]],
                         [ffrom(int(h, 16)) for h in spec["coefs"]], 0.0)

# ------------------------------------------------------------------------------------------------ execution
def parse_lines(text):
    res = {}
    for line in text.split("\n"):
        tk = line.split()
        if tk:
            res[tk[0]] = dict(t.split("=", 1) for t in tk[1:] if "=" in t)
    return res

def model_table_lines(tid, d0):
    sp = lambda s: s.replace(",", " ")
    return ["table %s" % tid, "ndim %s" % d0["nd"], "order " + sp(d0["order"]), "nknots " + sp(d0["nknots"]), "naxes " + sp(d0["naxes"]),
            "strides " + sp(d0["strides"]), "knots " + d0["knots"].replace(";", " "), "ext " + d0["ext"].replace(";", " "),
            "per " + d0["per"].replace(";", " "), "coef " + sp(d0["coef"])]

HARNESS_TIMEOUT = [90]
def run_harness(exe, path, nops, timeout=None):
    """runs the harness over one table's operations; a crash or a hang (no result within the time limit: a table takes well
    under a second on a correct tree) is recorded against the operation announced last on stderr and the run resumes after it;
    after three hangs the rest of the table is abandoned"""
    timeout = timeout or HARNESS_TIMEOUT[0]
    outputs, crashes, skip, hangs = {}, [], 0, 0
    while skip < nops and hangs < 3:
        try:
            p = subprocess.run([exe, path, str(skip)], stdout=subprocess.PIPE, stderr=subprocess.PIPE, text=True, timeout=timeout)
        except subprocess.TimeoutExpired as e:
            err = e.stderr.decode() if isinstance(e.stderr, bytes) else (e.stderr or "")
            ann = [l[1:] for l in err.split("\n") if l.startswith("@")]
            crashes.append((ann[-1] if ann else "<unknown>", "timeout (hang)"))
            out_so_far = e.stdout.decode() if isinstance(e.stdout, bytes) else (e.stdout or "")
            outputs.update(parse_lines(out_so_far))
            skip += max(1, len(ann))
            hangs += 1
            continue
        outputs.update(parse_lines(p.stdout))
        if p.returncode == 0:
            break
        ann = [l[1:] for l in p.stderr.split("\n") if l.startswith("@")]
        if not ann:
            crashes.append(("<startup>", p.stderr[-3000:]))
            break
        tail = "\n".join(l for l in p.stderr.split("\n") if not l.startswith("@"))[-3000:]
        crashes.append((ann[-1], "exit=%d\n%s" % (p.returncode, tail)))
        skip += len(ann)
    return outputs, crashes

def execute(cases, tag, flavours, model_fixed="1"):
    """runs every op through each harness flavour and the model. Returns dict tag -> record"""
    from concurrent.futures import ThreadPoolExecutor
    wd = build_dir("cases-C15-%d" % os.getpid())
    mexe = build_extracted("perm")
    exes = {f: build_harness("C15_" + f, ["C15_harness.cpp"], flavour=("faithful" if f == "f" else "checked"), tag="C15_" + f) for f in flavours}
    recs = {}
    shards = []
    for ti, (spec, ops) in enumerate(cases):
        tid = "%s_t%d" % (tag, ti)
        lines = spec_lines(tid, spec)
        tags = []
        for oi, op in enumerate(ops):
            otag = "%s_o%d" % (tid, oi)
            lines.append(op_line(otag, op))
            recs[otag] = {"spec": spec, "op": op, "tid": tid, "impl": {}, "model": None, "lines": spec_lines(tid, spec) + ["I %s_o0" % tid, op_line(otag, op)]}
            tags.append(otag)
        f = os.path.join(wd, tid + ".cases")
        open(f, "w").write("\n".join(lines) + "\n")
        shards.append((tid, f, tags, ops))
    crashes = []
    def sh_large(tags):
        return bool(recs[tags[0]]["spec"].get("large"))
    def one(sh):
        tid, f, tags, ops = sh
        res = {}
        cr = []
        for fl, exe in exes.items():
            o, c = run_harness(exe, f, len(tags))
            res[fl] = o
            cr += [(fl,) + x for x in c]
        # model input from the implementation's own dump of the initial table (first flavour)
        first = res[list(exes)[0]]
        d0 = first.get(tags[0])
        mo = {}
        if d0 and "nd" in d0 and not sh_large(tags):
            ml = model_table_lines(tid, d0)
            for otag, op in zip(tags, ops):
                if op[0] == "S":
                    ml.append("seq %s %s %s %s" % (otag, op[1], model_fixed, " ".join(pstr(p) for p in op[2])))
            mf = f + ".model"
            open(mf, "w").write("\n".join(ml) + "\n")
            p = subprocess.run([mexe, mf], stdout=subprocess.PIPE, stderr=subprocess.PIPE, text=True, timeout=3000)
            if p.returncode != 0:
                raise BuildError("model driver failed: " + p.stderr[-2000:])
            mo = parse_lines(p.stdout)
        return tags, res, mo, cr
    with ThreadPoolExecutor(max_workers=NCPU) as ex:
        for tags, res, mo, cr in ex.map(one, shards):
            crashes += cr
            for otag in tags:
                for fl in res:
                    if otag in res[fl]:
                        recs[otag]["impl"][fl] = res[fl][otag]
                recs[otag]["model"] = mo.get(otag)
                recs[otag]["init"] = {fl: res[fl].get(tags[0]) for fl in res}
    shutil.rmtree(wd, ignore_errors=True)
    return recs, crashes

# ------------------------------------------------------------------------------------------------ oracle
def row_major(shape):
    st = [1] * len(shape)
    for i in range(len(shape) - 2, -1, -1):
        st[i] = st[i + 1] * shape[i + 1]
    return st

def ints(s):
    return [int(x) for x in s.split(",")] if s else []

def check_permuted(api, d0, d1, p):
    """d1 must be d0 with axes relabelled by p: new axis i = old axis p[i]"""
    fails = []
    nd = int(d0["nd"])
    if d1.get("nd") != d0["nd"]:
        return [("C15:%s:ndim-changed" % api, "ndim %s -> %s" % (d0["nd"], d1.get("nd")))]
    for name, sep in (("order", ","), ("nknots", ","), ("naxes", ","), ("knots", ";"), ("ext", ";")):
        a0, a1 = d0[name].split(sep), d1[name].split(sep)
        want = [a0[j] for j in p]
        if a1 != want:
            i = next((k for k in range(min(len(a1), nd)) if a1[k] != want[k]), 0)
            fails.append(("C15:%s:attr-%s" % (api, name), "%s of new axis %d is not %s of old axis %d under permutation %s: got %s, expected %s" % (
                name, i, name, p[i], p, a1[i][:40] if i < len(a1) else None, want[i][:40])))
    if d0["per"] == "none":
        if d1["per"] != "none":
            fails.append(("C15:%s:attr-periods" % api, "periods appeared"))
    else:
        a0, a1 = d0["per"].split(";"), d1["per"].split(";")
        want = [a0[j] for j in p]
        if a1 != want:
            i = next((k for k in range(min(len(a1), nd)) if a1[k] != want[k]), 0)
            what = "periods not permuted (unchanged)" if a1 == a0 else "periods wrongly permuted"
            fails.append(("C15:%s:%s" % (api, "periods-not-permuted" if a1 == a0 else "attr-periods"),
                          "%s: period of new axis %d is %r, expected the period %r of old axis %d (permutation %s)" % (
                              what, i, dfrom(int(a1[i], 16)), dfrom(int(want[i], 16)), p[i], p)))
    sh0, sh1 = ints(d0["naxes"]), ints(d1["naxes"])
    if ints(d1["strides"]) != row_major(sh1):
        fails.append(("C15:%s:strides" % api, "strides %s are not row-major for the new shape %s" % (d1["strides"], sh1)))
    c0, c1 = d0["coef"].split(","), d1["coef"].split(",")
    if sh1 == [sh0[j] for j in p]:
        st0, st1 = row_major(sh0), row_major(sh1)
        if len(c1) != len(c0):
            fails.append(("C15:%s:coeff-count" % api, "%d coefficients became %d" % (len(c0), len(c1))))
        else:
            for m in itertools.product(*[range(a) for a in sh0]):
                pos0 = sum(i * s for i, s in zip(m, st0))
                pos1 = sum(m[p[i]] * st1[i] for i in range(nd))
                if c1[pos1] != c0[pos0]:
                    fails.append(("C15:%s:coeff-relocation" % api, "coefficient at multi-index %s (flat %d, bits %s) is not at the permuted multi-index %s (flat %d holds %s); permutation %s" % (
                        list(m), pos0, c0[pos0], [m[j] for j in p], pos1, c1[pos1], p)))
                    break
    return fails

def same_dump(a, b):
    return all(a.get(k) == b.get(k) for k in FIELDS[1:])

def malformed_class(p, nd):
    if len(p) != nd:
        return "wrong-length"
    if any(j >= nd for j in p) and len(set(p)) != len(p):
        return "dup+range"
    if any(j >= nd for j in p):
        return "out-of-range"
    return "duplicate"

def oracle(rec, fl):
    """the statement of C15 on the implementation's output alone"""
    op, spec = rec["op"], rec["spec"]
    d = rec["impl"].get(fl)
    d0 = (rec.get("init") or {}).get(fl)
    if d is None or d0 is None or op[0] == "I":
        return []
    nd = spec["ndim"]
    fails = []
    if op[0] == "S":
        api = "member" if op[1] == "m" else "c"
        sts = d["st"].split(",")
        cur, curp = d0, list(range(nd))       # expected table = d0 relabelled by curp
        for st, p in zip(sts, op[2]):
            pe = p[:nd] if op[1] == "c" and len(p) > nd else p
            good = is_perm(pe, nd)
            accepted = st in ("ok", "rc0")
            if good and not accepted:
                fails.append(("C15:%s:rejects-permutation" % api, "permutation %s rejected with %s" % (p, st)))
                return fails
            if not good and accepted:
                fails.append(("C15:%s:accepts-%s" % (api, malformed_class(pe, nd)), "argument %s is not a permutation of 0..%d but was accepted" % (p, nd - 1)))
                return fails
            if good:
                curp = [curp[j] for j in pe]
        # whatever was rejected must have left the table as it was: the final table is d0 relabelled by the accepted ones
        f2 = check_permuted(api, d0, d, curp)
        if f2 and not any(s in ("ok", "rc0") for s in sts):
            f2 = [("C15:%s:reject-modifies-table" % api, "a rejected argument changed the table: " + f2[0][1])]
        fails += f2
        if curp == list(range(nd)):
            if not same_dump(d, d0):
                bad = [k for k in FIELDS[1:] if d.get(k) != d0.get(k)]
                if not fails:
                    fails.append(("C15:%s:identity-not-restored" % api, "fields %s differ from the original after %s" % (bad, op[2])))
            if d.get("eq") != "1":
                fails.append(("C15:%s:operator==-false" % api, "operator== says the table differs from the original after %s" % (op[2],)))
    elif op[0] == "E":
        if d.get("st") != "ok" or d.get("ok0") != "1" or d.get("ok1") != "1":
            if d.get("ok0") == "1" and d.get("ok1") != "1":
                fails.append(("C15:eval:permuted-point-outside", "the permuted point is outside the permuted table (%s)" % d))
            return fails
        p = op[1]
        c0, c1 = ints(d["c0"]), ints(d["c1"])
        if c1 != [c0[j] for j in p]:
            fails.append(("C15:eval:centers", "centers %s at the permuted point are not the permuted centers of %s (permutation %s)" % (c1, c0, p)))
        t = spec_table(spec)
        xs = [dfrom(int(h, 16)) for h in op[2]]
        exact, absum = oracle_exact.spline_spec(t.orders, t.knots, t.coefs, xs, [0] * nd)
        cmax = max(abs(c) for c in t.coefs)
        for prec, k0, k1 in (("f", "v0", "v1"), ("d", "d0", "d1")):
            v0, v1 = dfrom(int(d[k0], 16)), dfrom(int(d[k1], 16))
            ok0, eb0 = evalfam.tolerance_ok(v0, exact, absum, t.orders, prec, cmax * 4096)
            ok1, eb1 = evalfam.tolerance_ok(v1, exact, absum, t.orders, prec, cmax * 4096)
            if ok0 and not ok1:
                fails.append(("C15:eval:value-differs", "original evaluates to %r, permuted table at the permuted point to %r; exact %.17g (|err|,bound = %s), permutation %s, precision %s" % (
                    v0, v1, float(exact), eb1, p, prec)))
    return fails

# ------------------------------------------------------------------------------------------------ the check
def analyse(recs, crashes, out, stats):
    ndiff = 0
    for otag, rec in recs.items():
        op = rec["op"]
        for fl, d in rec["impl"].items():
            stats["traces"] = stats.get("traces", 0) + 1
            m = rec["model"]
            if op[0] == "S" and rec["spec"].get("large"):
                stats["large_table_ops_judged_by_theorem_statement"] = stats.get("large_table_ops_judged_by_theorem_statement", 0) + 1
            elif op[0] == "S":
                if m is None:
                    ndiff += 1
                    stats.setdefault("diffs", []).append((otag, fl, "no model output", "", ""))
                else:
                    bad = [k for k in FIELDS if d.get(k) != m.get(k)]
                    # the C wrapper hides the error class; the member function's class is compared exactly
                    stats["compared_values"] = stats.get("compared_values", 0) + len(FIELDS)
                    if bad:
                        ndiff += 1
                        stats.setdefault("diffs", []).append((otag, fl, bad, {k: d.get(k, "")[:200] for k in bad}, {k: m.get(k, "")[:200] for k in bad}))
            for sig, msg in oracle(rec, fl):
                stats["oracle_fail"] = stats.get("oracle_fail", 0) + 1
                out.violation(sig, msg, payload(rec, fl, msg))
    for fl, otag, detail in crashes:
        rec = recs.get(otag)
        import re as _re
        m = _re.search(r"SUMMARY: \w+: ([\w-]+) (\S+)", detail)
        loc = (m.group(1) + "@" + os.path.basename(m.group(2))) if m else ("hang" if "timeout" in detail else "unknown")
        out.violation("C15:crash:" + loc, "implementation crashed / sanitizer report: " + (detail.strip().split("\n")[-1][:200] if detail.strip() else "crash"),
                      dict(payload(rec, fl, "crash") if rec else {}, crash=detail))
        stats["oracle_fail"] = stats.get("oracle_fail", 0) + 1
    return ndiff

def payload(rec, fl, msg):
    return {"table": rec["spec"], "op": [rec["op"][0]] + [x for x in rec["op"][1:]], "case_lines": rec["lines"], "flavour": fl,
            "impl_output": rec["impl"].get(fl), "impl_initial": (rec.get("init") or {}).get(fl), "model_output": rec["model"], "oracle_verdict": msg}

def case_from_payload(p):
    op = p["op"]
    op = tuple(op)
    return (p["table"], [("I",), op])

def load_corpus():
    d = os.path.join(VERIF, "corpus", "C15")
    cases = []
    if os.path.isdir(d):
        for f in sorted(os.listdir(d)):
            if f.endswith(".json"):
                cases.append(case_from_payload(json.load(open(os.path.join(d, f)))))
    return cases

# ------------------------------------------------------------------------------------------------
# tables of more than 2^24 coefficients (where a count kept in single precision, a 32-bit byte offset of a float array ... would break):
# too large to dump as text, so the harness fills the array with a pattern of the flat index, permutes, and verifies every coefficient
# itself against an independent index computation — the statement of C15_coeff_relocated, which determines the array
# (C15_coeff_relocation_determines_the_array) — then applies the inverse and compares with the original (C15_inverse).
GIANT = {"quick": [((4097, 4099), (1, 0), "m")],
         "thorough": [((4097, 4099), (1, 0), "m"), ((4099, 4097), (1, 0), "c"), ((9, 2001, 2002), (2, 0, 1), "m"), ((2002, 9, 2001), (1, 2, 0), "c"),
                      ((257, 255, 257), (2, 1, 0), "m"), ((65, 63, 65, 64), (3, 1, 0, 2), "m")]}
def check_giant(tier, out, stats):
    wd = build_dir("cases-C15-giant-%d" % os.getpid())
    exes = {f: build_harness("C15_" + f, ["C15_harness.cpp"], flavour=("faithful" if f == "f" else "checked"), tag="C15_" + f) for f in ("f", "c")}
    n = 0
    for ci, (shape, perm, api) in enumerate(GIANT[tier]):
        nd = len(shape)
        orders = [(ci + d) % 3 for d in range(nd)]
        lines = ["T g%d %d 1" % (ci, nd)]
        for d, (a, o) in enumerate(zip(shape, orders)):
            kn = [float(k) * (d + 1) for k in range(a + o + 1)]
            lines.append("D %d %d %s %s %s %s %s" % (o, len(kn), hexd(7000.0 * (d + 1)), hexd(100.0 + d), hexd(1000.0 + d), hexd(3.25 * (d + 1)), " ".join(hexd(x) for x in kn)))
        lines.append("V g%d %s %s" % (ci, api, pstr(list(perm))))
        f = os.path.join(wd, "g%d.cases" % ci)
        open(f, "w").write("\n".join(lines) + "\n")
        total = 1
        for a in shape:
            total *= a
        for fl, exe in exes.items():
            payload = {"giant": {"shape": list(shape), "orders": orders, "perm": list(perm), "api": api, "coefficients": total, "flavour": fl}, "case_lines_head": [l[:200] for l in lines]}
            try:
                p = subprocess.run([exe, f], stdout=subprocess.PIPE, stderr=subprocess.PIPE, text=True, timeout=1200)
            except subprocess.TimeoutExpired:
                out.violation("C15:crash:hang", "permuting a table of %d coefficients (shape %s) did not finish" % (total, list(shape)), payload); continue
            n += 1
            rec = parse_lines(p.stdout).get("g%d" % ci)
            if p.returncode != 0 or rec is None:
                import re as _re
                m = _re.search(r"SUMMARY: \w+: ([\w-]+) (\S+)", p.stderr)
                out.violation("C15:crash:" + ((m.group(1) + "@" + os.path.basename(m.group(2))) if m else "giant"),
                              "permuting a table of %d coefficients (shape %s, permutation %s) crashed: %s" % (total, list(shape), list(perm), p.stderr.strip().split("\n")[-1][:200] if p.stderr.strip() else "exit %d" % p.returncode),
                              dict(payload, crash=p.stderr[-3000:]))
                continue
            apiname = "member" if api == "m" else "c"
            want_nax = [shape[j] for j in perm]
            want = {"naxes": ",".join(map(str, want_nax)), "strides": ",".join(map(str, row_major(want_nax))),
                    "order": ",".join(str(orders[j]) for j in perm), "nknots": ",".join(str(shape[j] + orders[j] + 1) for j in perm)}
            if rec.get("st") not in ("ok", "rc0"):
                out.violation("C15:%s:rejects-permutation" % apiname, "permutation %s of a table of %d coefficients rejected with %s" % (list(perm), total, rec.get("st")), payload); continue
            for k, v in want.items():
                if rec.get(k) != v:
                    out.violation("C15:%s:attr-%s" % (apiname, k), "table of %d coefficients: %s is %s, expected %s (permutation %s)" % (total, k, rec.get(k), v, list(perm)), payload)
            if rec.get("bad") != "0":
                out.violation("C15:%s:coeff-relocation" % apiname, "table of %d coefficients (shape %s, permutation %s): %s coefficients are not at their permuted position, first at flat index %s" % (
                    total, list(shape), list(perm), rec.get("bad"), rec.get("first")), payload)
            elif rec.get("inv") != "1":
                out.violation("C15:%s:identity-not-restored" % apiname, "table of %d coefficients: permutation followed by its inverse does not restore the table" % total, payload)
    shutil.rmtree(wd, ignore_errors=True)
    stats["giant_table_runs"] = n
    return n

RULE = ("tables of 1..6 dims with pairwise different orders, axis lengths, knot vectors (+padding), extents, periods (present in ~75% of tables) and distinct "
        "coefficient bit patterns; every permutation of <=4 (quick) / <=5 (thorough) dims, sampled above; per permutation: member function, "
        "permutation followed by its inverse, C wrapper (every third), composition with a second permutation, evaluation at permuted points; per table "
        "every malformed class (short, long, empty, out of range incl. 2^32+k and 2^64-1, duplicate, duplicate+out of range in both orders, all equal) alone, "
        "after and before a valid permutation; plus whole tables of >= 2^16 (thorough: up to 2^20) coefficients whose axis lengths are multiples of 8..64 or one off "
        "(judged by the statements of the C15 theorems — by C15_coeff_relocation_determines_the_array that statement determines the model's output —, the quadratic list model is not run on them); non-trivial = permutation is not the identity or the argument is malformed; distinct by (table, operation)")

def run(info, out):
    tier, seed = info["tier"], info["seed"]
    HARNESS_TIMEOUT[0] = 60 if tier == "quick" else 300
    flavours = ["f", "c"]
    stats = {}
    if info.get("replay"):
        p = json.load(open(info["replay"]))
        if "table" not in p:
            print("replay file names a broken obligation, not an input: %s" % p.get("broken"))
            return {"evaluations": 1, "distinct_nontrivial": 2}
        recs, crashes = execute([case_from_payload(p)], "replay", flavours)
        nd = analyse(recs, crashes, out, stats)
        for otag, rec in recs.items():
            print("%s op=%s" % (otag, rec["op"]))
            for fl, d in rec["impl"].items():
                print("  impl[%s]  %s" % (fl, " ".join("%s=%s" % (k, v[:100]) for k, v in d.items())))
            if rec["model"]:
                print("  model    %s" % " ".join("%s=%s" % (k, v[:100]) for k, v in rec["model"].items()))
        print("replay: %d model/implementation disagreements, %d oracle failures" % (nd, stats.get("oracle_fail", 0)))
        return {"evaluations": len(recs), "distinct_nontrivial": 2, "rule": "replay of " + info["replay"], "samples": [str(p.get("op"))]}
    corpus = load_corpus()
    ncorpus = 0
    if corpus:
        r0, c0 = execute(corpus, "corpus", flavours)
        analyse(r0, c0, out, stats)
        ncorpus = len(r0)
    rng = Rng(seed).fork("C15-main")
    cases = gen_cases(rng, tier)
    recs, crashes = execute(cases, "main", flavours)
    ndiff = analyse(recs, crashes, out, stats)
    check_giant(tier, out, stats)
    searched = 0
    if (ndiff or not info["proof_ok"]) and not [v for v in out.violations if v[0] not in open_signatures("C15")]:
        cases2 = gen_cases(Rng(seed + 7919).fork("C15-search"), tier, scale=10 if tier == "quick" else 3)
        r2, c2 = execute(cases2, "search", ["f"])
        analyse(r2, c2, out, {})
        searched = len(r2)
        if not [v for v in out.violations if v[0] not in open_signatures("C15")] and ndiff:
            otag, fl, bad, a, b = stats["diffs"][0]
            p = payload(recs[otag], fl, "model/implementation disagree on %s" % (bad,))
            p.update({"broken": "correspondence PermModel.permute_checked vs splinetable::permuteDimensions", "disagreements": [bad, a, b], "no_failing_input_found": True})
            out.violation("C15:correspondence", "model and implementation disagree; the property oracle found no failing input", p)
    # coverage
    distinct, dist = set(), {}
    def bump(k):
        dist[k] = dist.get(k, 0) + 1
    for otag, rec in recs.items():
        op, nd = rec["op"], rec["spec"]["ndim"]
        if op[0] == "I":
            bump("tables_ndim_%d" % nd)
            continue
        if op[0] == "S":
            kinds = ["perm" if is_perm(p, nd) else malformed_class(p, nd) for p in op[2]]
            bump("S.%s.%s" % (op[1], "+".join(kinds)))
            st = (rec["impl"].get("f") or {}).get("st", "")
            for s in st.split(","):
                bump("status." + s)
            nontrivial = any(k != "perm" or p != list(range(nd)) for k, p in zip(kinds, op[2]))
        else:
            bump("E.ndim%d" % nd)
            nontrivial = op[1] != list(range(nd))
        if nontrivial:
            distinct.add(hashlib.sha256(json.dumps([rec["spec"], op], sort_keys=True).encode()).hexdigest())
    samples = []
    for otag in [t for t in recs if recs[t]["op"][0] == "S"][3:400:150]:
        rec = recs[otag]
        d = rec["impl"].get("f") or {}
        samples.append({"ndim": rec["spec"]["ndim"], "orders": [x["order"] for x in rec["spec"]["dims"]], "op": list(rec["op"]),
                        "impl": {k: d.get(k, "")[:80] for k in ("st", "eq", "order", "naxes", "strides", "per")}})
    return {"evaluations": len(recs) * len(flavours) + searched + ncorpus, "distinct_nontrivial": len(distinct), "rule": RULE, "samples": samples,
            "traces_validated_against_impl": stats.get("traces", 0), "compared_values": stats.get("compared_values", 0),
            "model_vs_impl_disagreeing_ops": ndiff, "giant_table_runs(>2^24 coefficients, verified in the harness)": stats.get("giant_table_runs", 0), "large_table_ops_judged_by_theorem_statement": stats.get("large_table_ops_judged_by_theorem_statement", 0), "input_distribution": dist, "corpus_cases": ncorpus, "search_volume_after_break": searched,
            "flavours": ["faithful -O3", "checked ASan+UBSan"]}
