"""evalfam.py — case generation, execution and comparison shared by the evaluation family C01..C05.

Case file (text; one table then its queries):
  T <ndim> <pad hex64>
  D <order> <nknots> <knot hex64>...            (ndim lines; naxes = nknots-order-1, strides row-major)
  C <ncoef> <coef hex32>...
  Q <id> X <hex64>*ndim M <mask>* K <k0,k1,..>* F <flag>*
Both sides print one line per query: "<id> key=value ...". Implementation keys carry the path as last
component (member / ev{t,n} / c); a model key is looked up as the full key first, then without the path.
"""
import math, os, sys, json, subprocess, time, fractions
sys.path.insert(0, os.path.dirname(os.path.dirname(os.path.abspath(__file__))))
from common import *

def _known_patterns():
    """the orders_are({...}) guards of get_evaluator as translated into Generated.v on this run (fallback: the two of the pinned tree)"""
    try:
        txt = open(os.path.join(COQDIR, "theories", "Generated.v")).read()
        pats = [tuple(int(x) for x in m.split(";")) for m in re.findall(r"mkKnown\s+\w+\s+\[([0-9; ]+)\]", txt)]
        if pats:
            return sorted(set(pats))
    except OSError:
        pass
    return [(2, 2, 2, 3, 2, 2), (2, 2, 2, 5, 2, 2)]
KNOWN_PATTERNS = _known_patterns()     # as of import time; the generators call known_patterns() (after this run's translation)
def known_patterns():
    return _known_patterns()

# ------------------------------------------------------------------------------------------------
def gen_knots(rng, order, extra, style, scale=1.0, offset=0.0):
    n = 2 * order + 2 + extra
    ks = []
    if style == "uniform":
        step = scale * (0.25 + rng.unit())
        ks = [offset + step * i for i in range(n)]
    elif style == "irregular":
        a = offset
        for i in range(n):
            ks.append(a)
            a += scale * (0.01 + rng.unit() * (10.0 if rng.chance(0.2) else 1.0))
    elif style == "repeated":
        a = offset
        for i in range(n):
            ks.append(a)
            if not rng.chance(0.35):
                a += scale * (0.05 + rng.unit())
    elif style == "wild":       # widely varying spacing
        a = offset
        for i in range(n):
            ks.append(a)
            a += scale * (10.0 ** rng.rint(-8, 8)) * (0.5 + rng.unit())
    elif style == "integer":
        a = int(offset)
        for i in range(n):
            ks.append(float(a))
            a += rng.rint(1, 3)
    elif style == "symm":
        # symmetric, strongly non-uniform spacing (quadratic / geometric away from the centre): the first and the last span have
        # EXACTLY the same width although the vector is far from evenly spaced — what an "is this grid uniform?" test that looks
        # at the end spans only would mistake for a uniform grid
        h = (n - 1) / 2.0
        step = scale * (0.25 + rng.unit())
        quad = rng.chance(0.6)
        for i in range(n):
            t_ = i - h
            ks.append(offset + step * (t_ * abs(t_) if quad else (1.0 if t_ >= 0 else -1.0) * (1.5 ** abs(t_) - 1.0)))
        # exact symmetry of the end spans in floating point: mirror the upper half onto the lower one
        for i in range(n // 2):
            ks[i] = 2.0 * offset - ks[n - 1 - i]
    elif style == "far":
        # knots far from the origin relative to their spacing (|t| / spacing = 2^12 .. 2^44: seconds since an epoch, large
        # coordinates): spans that single precision cannot resolve around x although the double recurrence can
        e = rng.choice([12, 20, 24, 26, 30, 36, 44])
        step = scale * (0.5 + rng.unit())
        base = (1.0 if rng.chance(0.5) else -1.0) * step * (2.0 ** e) * (1.0 + rng.unit())
        a = base
        for i in range(n):
            ks.append(a)
            a += step * (1.0 if rng.chance(0.7) else rng.choice([0.0, 0.25, 3.0]))
    elif style in ("multi", "clamped"):
        # knots of multiplicity exactly order or order+1 (a kink / a jump of the spline: the basis function starting there
        # vanishes at the knot but its one-sided slope does not); "clamped": the end knots repeated order+1 times
        a = offset
        while len(ks) < n:
            left = n - len(ks)
            if style == "clamped" and (len(ks) == 0 or left <= order + 1):
                m = min(left, order + 1)
            elif rng.chance(0.4):
                m = min(left, max(1, order + rng.choice([0, 0, 1])))
            else:
                m = 1
            ks += [a] * m
            a += scale * (0.05 + rng.unit())
    # ensure first < last strictly and non-decreasing in floating point
    for i in range(1, n):
        if ks[i] < ks[i - 1]:
            ks[i] = ks[i - 1]
    if not (ks[0] < ks[-1]):
        ks[-1] = ks[0] + abs(ks[0]) + 1.0
    return ks

def gen_orders(rng, ndim, pattern):
    if pattern == "const":
        k = rng.rint(0, 5)
        return [k] * ndim
    if pattern == "c2":
        return [2] * ndim
    if pattern == "c3":
        return [3] * ndim
    if pattern == "known":
        return list(rng.choice(known_patterns()))
    # near misses of the dispatch guards (the case splits of C03_dispatch_sound): a known pattern extended by further
    # dimensions, cut short, or with one entry changed; a constant order with one deviating dimension
    if pattern == "known_ext":
        return list(rng.choice(known_patterns())) + [rng.rint(0, 3) for _ in range(rng.rint(1, 3))]
    if pattern == "known_cut":
        kp = list(rng.choice(known_patterns()))
        return kp[:rng.rint(1, len(kp) - 1)]
    if pattern == "known_perturb":
        kp = list(rng.choice(known_patterns()))
        i = rng.below(len(kp))
        kp[i] = max(0, kp[i] + rng.choice([-1, 1]))
        return kp
    if pattern == "const_but_one":
        k = rng.rint(1, 4)
        os_ = [k] * max(2, ndim)
        os_[rng.below(len(os_))] = k + rng.choice([-1, 1])
        return os_
    return [rng.rint(0, 5) for _ in range(ndim)]

def gen_coef(rng, style):
    u = rng.unit()
    if style == "ones":
        return 1.0
    if style == "special" and rng.chance(0.3):
        return rng.choice([0.0, -0.0, 1e-40, -1e-42, 3e38, -3e38, 1.0, -1.0, 1e-30, 1e30])
    if style == "posneg" or style == "special":
        return to_f32((u * 2 - 1) * 10.0 ** rng.rint(-3, 3))
    return to_f32(u * 10 - 5)

class Table:
    def __init__(self, orders, knots, coefs, pad):
        self.orders, self.knots, self.coefs, self.pad = orders, knots, [to_f32(c) for c in coefs], pad
        self.ndim = len(orders)
        self.nknots = [len(k) for k in knots]
        self.naxes = [len(k) - o - 1 for k, o in zip(knots, orders)]
    def lines(self):
        out = ["T %d %s" % (self.ndim, hexd(self.pad))]
        for o, k in zip(self.orders, self.knots):
            out.append("D %d %d %s" % (o, len(k), " ".join(hexd(x) for x in k)))
        out.append("C %d %s" % (len(self.coefs), " ".join(hexf(c) for c in self.coefs)))
        return out
    def to_json(self):
        return {"orders": self.orders, "knots": [[hexd(x) for x in k] for k in self.knots],
                "knots_float": self.knots, "coefs": [hexf(c) for c in self.coefs], "pad": hexd(self.pad)}
    def describe(self):
        return "ndim=%d orders=%s nknots=%s" % (self.ndim, self.orders, self.nknots)

def add_history_twins(rng, cases, every=7):
    """call histories: after every `every`-th table a TWIN follows in the same harness process — the same shape, orders and coefficients,
    one knot of one dimension moved (so the knot arrays of the dead table and of its successor have equal sizes and, with the usual
    allocators, equal addresses) — and is asked the same queries in reverse order, so that its first query is bitwise the last one of
    its predecessor. Whatever the library remembers between calls (per thread, per address, per argument) must not leak from one
    table into the next."""
    out = []
    for ti, (t, qs) in enumerate(cases):
        out.append((t, qs))
        if ti % every != every - 1 or not qs or len(t.coefs) > 20000:
            continue
        cand = [(d, i) for d in range(t.ndim) for i in range(1, t.nknots[d] - 1) if t.knots[d][i - 1] < t.knots[d][i] < t.knots[d][i + 1]]
        if not cand:
            continue
        knots = [list(k) for k in t.knots]
        for d, i in [rng.choice(cand) for _ in range(rng.rint(1, 2))]:
            lo, hi = knots[d][i - 1], knots[d][i + 1]
            # strictly between its neighbours: the multiplicity structure of the knot vector (which the queries were chosen for:
            # derivative orders >= 2 only along strictly increasing knots) is that of the predecessor
            new = lo + (hi - lo) * rng.choice([0.25, 0.5, 0.75])
            if lo < new < hi:
                knots[d][i] = new
        if knots == [list(k) for k in t.knots]:
            continue
        t2 = Table(list(t.orders), knots, list(t.coefs), t.pad)
        t2.follows_previous = True
        out.append((t2, list(reversed(qs))))
    return out

def gen_table(rng, ndim=None, max_coefs=60000, pattern=None, knot_style=None, coef_style=None, scale_range=(-2, 2), maxextra=7):
    if ndim is None:
        ndim = rng.choice([1, 1, 2, 2, 3, 3, 4, 5, 6, 7, 8, 9])
    if pattern is None:
        pattern = rng.choice(["const", "mixed", "mixed", "c2", "c3", "known"])
    if pattern == "known":
        ndim = 6
    orders = gen_orders(rng, ndim, pattern)
    ndim = len(orders)
    # keep the coefficient array within bounds: extra knots shrink with ndim
    while True:
        extras = []
        for o in orders:
            r = rng.unit()
            extras.append(0 if r < 0.3 else rng.rint(0, maxextra if ndim <= 3 else 2 if ndim <= 6 else 1))
        nco = 1
        for o, e in zip(orders, extras):
            nco *= (o + 1 + e)
        if nco <= max_coefs:
            break
        orders = [max(0, o - 1) if rng.chance(0.5) else o for o in orders] if pattern in ("mixed",) else orders
        if pattern not in ("mixed",):
            maxextra = max(0, maxextra - 1)
            if maxextra == 0 and nco > max_coefs:
                # constant/known patterns at minimal knots can still be too big for 9 dims with order 5: lower ndim
                if pattern.startswith("known"):
                    break
                ndim = max(1, ndim - 1)
                orders = orders[:ndim]
    knots = []
    for o, e in zip(orders, extras):
        style = knot_style or rng.choice(["uniform", "irregular", "irregular", "repeated", "integer", "multi", "clamped", "far"])
        scale = 10.0 ** rng.rint(scale_range[0], scale_range[1])
        offset = (rng.unit() * 20 - 10) * scale
        knots.append(gen_knots(rng, o, e, style, scale, offset))
    cs = coef_style or rng.choice(["rand", "rand", "posneg", "special", "ones"])
    coefs = [gen_coef(rng, cs) for _ in range(nco)]
    pad = rng.choice([math.nan, 1e300, -1e300, 0.0])
    return Table(orders, knots, coefs, pad)

# ------------------------------------------------------------------------------------------------
IN_CLASSES = ["knot", "knot+", "knot-", "mid", "lmargin", "rmargin", "rand", "full_lo", "full_hi", "last", "repknot"]
OUT_CLASSES = ["first", "below", "above", "inf", "-inf", "hugeneg", "hugepos"]
WEIRD_CLASSES = ["nan", "denorm", "zero", "-zero"]

def gen_coord(rng, t, d, cls):
    k, o = t.knots[d], t.orders[d]
    n = len(k)
    na = n - o - 1
    if cls == "knot":
        return k[rng.below(n)]
    if cls == "repknot":          # a knot that occurs more than once (any knot when there is none)
        rep = [v for i, v in enumerate(k[1:], 1) if v == k[i - 1]]
        return rng.choice(rep) if rep else k[rng.below(n)]
    if cls == "knot+":
        return nextafter(k[rng.below(n)], math.inf)
    if cls == "knot-":
        return nextafter(k[rng.below(n)], -math.inf)
    if cls == "mid":
        i = rng.below(n - 1)
        return k[i] + (k[i + 1] - k[i]) * rng.unit()
    if cls == "lmargin":
        return k[0] + (k[o] - k[0]) * rng.unit()
    if cls == "rmargin":
        return k[na] + (k[n - 1] - k[na]) * rng.unit()
    if cls == "rand":
        return k[0] + (k[n - 1] - k[0]) * rng.unit()
    if cls == "full_lo":
        return k[o]
    if cls == "full_hi":
        return k[na]
    if cls == "last":
        return k[n - 1]
    if cls == "first":
        return k[0]
    if cls == "below":
        return k[0] - abs(k[0]) * rng.unit() - rng.unit()
    if cls == "above":
        return k[n - 1] + abs(k[n - 1]) * rng.unit() + rng.unit() + 1e-9
    if cls == "inf":
        return math.inf
    if cls == "-inf":
        return -math.inf
    if cls == "hugeneg":
        return -1.7e308
    if cls == "hugepos":
        return 1.7e308
    if cls == "nan":
        return math.nan
    if cls == "denorm":
        return 5e-324 * rng.rint(1, 1000)
    if cls == "zero":
        return 0.0
    if cls == "-zero":
        return -0.0
    raise ValueError(cls)

def in_range(t, d, x):
    k = t.knots[d]
    return x > k[0] and x <= k[-1]

def region_class(t, d, x):
    k, o = t.knots[d], t.orders[d]
    na = len(k) - o - 1
    if x != x:
        return "nan"
    if not in_range(t, d, x):
        return "outside"
    on = "on" if x in k else "off"
    if x < k[o]:
        return "lmargin-" + on
    if x == k[na]:
        return "upper-end"
    if x > k[na]:
        return "rmargin-" + on
    return "interior-" + on

def gen_point(rng, t, classes, force_in=True):
    xs, cl = [], []
    for d in range(t.ndim):
        for _ in range(20):
            c = rng.choice(classes)
            x = gen_coord(rng, t, d, c)
            if not force_in or in_range(t, d, x):
                break
        else:
            k = t.knots[d]
            x = k[0] + (k[-1] - k[0]) * 0.5
            c = "mid"
        xs.append(x)
        cl.append(c)
    return xs, cl

def query_line(qid, xs, masks=(), ks=(), flags=()):
    s = "Q %s X %s" % (qid, " ".join(hexd(x) for x in xs))
    if masks:
        s += " M " + " ".join(str(m) for m in masks)
    if ks:
        s += " K " + " ".join(",".join(str(v) for v in kv) for kv in ks)
    if flags:
        s += " F " + " ".join(flags)
    return s

# ------------------------------------------------------------------------------------------------
def parse_output(text):
    res = {}
    for line in text.split("\n"):
        tk = line.split()
        if not tk:
            continue
        d = {}
        for t in tk[1:]:
            if "=" in t:
                k, v = t.split("=", 1)
                d[k] = v
        res[tk[0]] = d
    return res

_MODEL_EXE = [None]
def model_exe():
    if _MODEL_EXE[0] is None:
        _MODEL_EXE[0] = build_extracted("eval")
    return _MODEL_EXE[0]
def run_model(casefile, exact_limit=4000):
    exe = model_exe()
    p = run([exe, casefile, str(exact_limit)], timeout=3600)
    if p.returncode != 0:
        raise BuildError("model driver failed: " + p.stderr[-2000:])
    return parse_output(p.stdout)

def run_impl(exe, casefile, nqueries, env=None, timeout=3600):
    """runs the harness; on a crash, records it against the query announced last on stderr and restarts after it.
    Returns (outputs, crashes) where crashes = list of (query id, stderr tail)."""
    outputs, crashes = {}, []
    skip = 0
    e = dict(os.environ)
    e.update(env or {})
    while skip < nqueries:
        p = subprocess.run([exe, casefile, str(skip)], stdout=subprocess.PIPE, stderr=subprocess.PIPE, text=True, timeout=timeout, env=e)
        out = parse_output(p.stdout)
        outputs.update(out)
        if p.returncode == 0:
            break
        announced = [l[1:] for l in p.stderr.split("\n") if l.startswith("@")]
        done = len(announced)           # the last announced query is the one that crashed
        if done == 0:
            crashes.append(("<startup>", p.stderr[-3000:]))
            break
        bad = announced[-1]
        tail = "\n".join(l for l in p.stderr.split("\n") if not l.startswith("@"))[-3000:]
        crashes.append((bad, "exit=%d\n%s" % (p.returncode, tail)))
        skip += done
    return outputs, crashes

def model_key_for(mout, ikey):
    if ikey in mout:
        return ikey
    parts = ikey.split(".")
    k2 = ".".join(parts[:-1])
    if k2 in mout:
        return k2
    # var.t.f / var.t.d -> var.t ; op falls back to m0
    if parts[0] == "var":
        k3 = ".".join(parts[:2])
        return k3 if k3 in mout else None
    return None

def compare(impl, model, keyfilter=None):
    """exact comparison of every implementation key with its model key. Returns list of (qid, key, impl, model)."""
    diffs = []
    ncmp = 0
    for qid, iout in impl.items():
        mout = model.get(qid)
        if mout is None:
            diffs.append((qid, "<missing model line>", "", ""))
            continue
        for k, v in iout.items():
            if keyfilter and not keyfilter(k):
                continue
            mk = model_key_for(mout, k)
            if mk is None:
                if k.split(".")[1:2] == ["op"] and (k.split(".")[0] + ".m0") in mout:
                    mk = k.split(".")[0] + ".m0"
                else:
                    diffs.append((qid, k, v, "<no model key>"))
                    continue
            ncmp += 1
            if mout[mk] != v:
                # NaN payloads/signs are not part of any property: compare NaNs as a class
                if hexlist_equal_mod_nan(v, mout[mk]):
                    continue
                diffs.append((qid, k, v, mout[mk]))
    return diffs, ncmp

def is_nan_hex(v):
    try:
        if len(v) != 16:
            return False
        x = dfrom(int(v, 16))
        return x != x
    except ValueError:
        return False

def hexlist_equal_mod_nan(a, b):
    if a == b:
        return True
    la, lb = a.split(","), b.split(",")
    if len(la) != len(lb):
        return False
    for x, y in zip(la, lb):
        if x != y and not (is_nan_hex(x) and is_nan_hex(y)):
            return False
    return True

def parse_q(s):
    num, den = s.split("/")
    neg = num.startswith("-")
    n = int(num.lstrip("-"), 16)
    return fractions.Fraction(-n if neg else n, int(den, 16))

def tolerance_ok(impl_val, exact, absum, orders, precision, underflow_scale=0):
    """|impl - exact| <= K*u*sum|terms| + underflow term  (DESIGN §1.1), all in exact rationals.
    The underflow term is the absolute error floor of the working precision (2^-149 resp. 2^-1074 per operation)
    times [underflow_scale] = (number of terms) * max|coefficient| * prod_d max(1, sum_i |basis_i|): an intermediate
    product that underflows loses at most that much after being multiplied by the remaining factors."""
    if impl_val != impl_val or impl_val in (math.inf, -math.inf):
        return False, None
    u = fractions.Fraction(1, 2 ** 24) if precision == "f" else fractions.Fraction(1, 2 ** 53)
    eta = fractions.Fraction(1, 2 ** 149) if precision == "f" else fractions.Fraction(1, 2 ** 1074)
    K = 16 * sum(o + 2 for o in orders)
    err = abs(fractions.Fraction(impl_val) - exact)
    bound = K * u * absum + eta * (1 + 64 * fractions.Fraction(underflow_scale))
    return err <= bound, (float(err), float(bound))

# ================================================================================================
_ORACLE_OWNER = [None]
def _oracle_job(job):
    qid, t, q, iout, mout = job
    return qid, _ORACLE_OWNER[0].oracle(t, q, iout, mout)
def parallel_oracle(owner, jobs):
    """evaluates the property oracle over many queries on all cores (fork: the owner object is inherited)"""
    if len(jobs) < 64:
        return [(j[0], owner.oracle(j[1], j[2], j[3], j[4])) for j in jobs]
    import multiprocessing as mp
    _ORACLE_OWNER[0] = owner
    with mp.get_context("fork").Pool(NCPU) as pool:
        return pool.map(_oracle_job, jobs, chunksize=max(1, len(jobs) // (NCPU * 8)))

class EvalCheck:
    """Shared driver: generate -> run model and implementation(s) -> exact comparison -> property oracle.
    Subclasses define: PROP, gen(rng, n) -> list of (Table, [ (xs, masks, ks, flags, classes) ]), keyfilter(key),
    oracle(table, query, impl_out) -> list of (signature, message), flavours() -> list of (tag, harness args)."""
    PROP = "C00"
    CORRESPONDENCE = "EvalModel vs bspline_eval.h/bspline.h"
    SHARDS = NCPU

    def keyfilter(self, k):
        return True
    def flavours(self):
        return [("t", dict(extra_flags=[]))]
    def nontrivial(self, table, q):
        return any(c not in ("rand", "mid") for c in q[4])
    def exact_limit(self):
        return 0
    def env(self, tag):
        return {}

    def explore(self, seed, n, tag, model=True):
        rng = Rng(seed).fork(tag)
        cases = self.gen(rng, n)
        return self.execute(cases, tag, model)

    def execute(self, cases, tag, model=True):
        wd = build_dir("cases-%s-%d" % (self.PROP, os.getpid()))
        meta, nq = {}, 0
        shard_lines = [[] for _ in range(self.SHARDS)]
        shard_q = [0] * self.SHARDS
        prev_shard = 0
        for ti, (t, qs) in enumerate(cases):
            s = prev_shard if (ti and getattr(t, "follows_previous", False)) else ti % self.SHARDS
            prev_shard = s
            shard_lines[s] += t.lines()
            for qi, q in enumerate(qs):
                qid = "%s_t%dq%d" % (tag, ti, qi)
                meta[qid] = (t, q)
                shard_lines[s].append(query_line(qid, q[0], q[1], q[2], q[3]))
                shard_q[s] += 1
                nq += 1
        files = []
        for s in range(self.SHARDS):
            if shard_q[s]:
                f = os.path.join(wd, "%s_%d.cases" % (tag, s))
                open(f, "w").write("\n".join(shard_lines[s]) + "\n")
                files.append((f, shard_q[s]))
        impl_by_flavour, crashes, hangs = {}, [], []
        mout = {}
        from concurrent.futures import ThreadPoolExecutor
        if model:
            model_exe()
        exes = {ftag: self.build(ftag, fargs) for ftag, fargs in self.flavours()}
        with ThreadPoolExecutor(max_workers=NCPU) as ex:
            futs = []
            if model:
                for f, _ in files:
                    futs.append(("model", None, ex.submit(run_model, f, self.exact_limit())))
            for ftag, fargs in self.flavours():
                exe = exes[ftag]
                for f, n in files:
                    futs.append(("impl", ftag, ex.submit(self.safe_run_impl, exe, f, n, self.env(ftag))))
            for kind, ftag, fu in futs:
                r = fu.result()
                if kind == "model":
                    mout.update(r)
                else:
                    o, cr, hg = r
                    impl_by_flavour.setdefault(ftag, {}).update(o)
                    crashes += [(ftag,) + c for c in cr]
                    hangs += [(ftag,) + h for h in hg]
        shutil.rmtree(wd, ignore_errors=True)
        return {"meta": meta, "model": mout, "impl": impl_by_flavour, "crashes": crashes, "hangs": hangs, "nq": nq}

    def safe_run_impl(self, exe, f, n, env):
        try:
            o, cr = run_impl(exe, f, n, env=env, timeout=self.impl_timeout())
            return o, cr, []
        except subprocess.TimeoutExpired as e:
            err = e.stderr.decode() if isinstance(e.stderr, bytes) else (e.stderr or "")
            ann = [l[1:] for l in err.split("\n") if l.startswith("@")]
            return {}, [], [(ann[-1] if ann else "<unknown>", "timeout")]
    def impl_timeout(self):
        # a shard of a quick run takes seconds; a hang (non-terminating lookup) must surface as a finding, not stall the check
        return 120 if getattr(self, "_tier", "quick") == "quick" else 1200

    def build(self, ftag, fargs):
        return build_harness("eval_" + ftag, ["eval_harness.cpp"], tag="eval_" + ftag, **fargs)

    def case_payload(self, t, q, qid):
        return {"table": t.to_json(), "x": [hexd(v) for v in q[0]], "x_float": [repr(v) for v in q[0]], "masks": list(q[1]), "ks": [list(k) for k in q[2]],
                "classes": q[4], "case_lines": t.lines() + [query_line(qid, q[0], q[1], q[2], q[3])]}

    def analyse(self, res, out, stats):
        """comparison + oracle over one exploration result; records violations; returns (ndiffs, noracle)"""
        meta = res["meta"]
        ndiff = nor = 0
        for ftag, impl in res["impl"].items():
            if res["model"]:
                diffs, ncmp = compare(impl, res["model"], self.keyfilter)
                stats["compared_values"] = stats.get("compared_values", 0) + ncmp
                stats["traces_validated_against_impl"] = stats.get("traces_validated_against_impl", 0) + len(impl)
                byq = {}
                for qid, k, a, b in diffs:
                    byq.setdefault(qid, []).append((k, a, b))
                ndiff += len(byq)
                stats.setdefault("diff_queries", {}).update({q: v[:4] for q, v in list(byq.items())[:50]})
            jobs = [(qid, meta[qid][0], meta[qid][1], iout, res["model"].get(qid, {})) for qid, iout in impl.items()]
            for qid, fl in parallel_oracle(self, jobs):
                t, q = meta[qid]
                for sig, msg in fl:
                    nor += 1
                    p = self.case_payload(t, q, qid)
                    p.update({"impl_output": impl[qid], "model_output": res["model"].get(qid), "oracle_verdict": msg, "flavour": ftag})
                    out.violation(sig, msg, p)
        for ftag, qid, detail in res["crashes"]:
            t, q = meta.get(qid, (None, None))
            p = self.case_payload(t, q, qid) if t else {}
            p.update({"crash": detail, "flavour": ftag})
            sig = self.crash_signature(t, q, detail)
            out.violation(sig, "implementation crashed / sanitizer report: " + detail.strip().split("\n")[-1][:200] if detail.strip() else "crash", p)
            nor += 1
        for ftag, qid, detail in res["hangs"]:
            t, q = meta.get(qid, (None, None))
            p = self.case_payload(t, q, qid) if t else {}
            p.update({"hang": detail, "flavour": ftag})
            out.violation(self.PROP + ":hang", "implementation did not terminate", p)
            nor += 1
        return ndiff, nor

    def crash_signature(self, t, q, detail):
        m = re.search(r"(SUMMARY: \w+: [\w-]+) (\S+)", detail)
        loc = ""
        if m:
            loc = m.group(1).split(": ")[-1] + "@" + os.path.basename(m.group(2))
        return "%s:crash:%s" % (self.PROP, loc or "unknown")

    def oracle(self, t, q, iout, mout):
        return []

    def run(self, info, out):
        tier, seed = info["tier"], info["seed"]
        self._tier = tier
        stats = {}
        if info.get("replay"):
            return self.replay(info["replay"], out)
        n = self.volume(tier)
        # corpus of minimised past failures first
        corpus = self.load_corpus()
        if corpus:
            r0 = self.execute(corpus, "corpus")
            self.analyse(r0, out, stats)
            stats["corpus_cases"] = r0["nq"]
        res = self.explore(seed, n, "main")
        ndiff, nor = self.analyse(res, out, stats)
        nq = res["nq"]
        searched = 0
        # a reproduced KNOWN finding is not the failing input of a broken tie: only violations outside the list count here
        fresh = lambda: [v for v in out.violations if v[0] not in open_signatures(self.PROP)]
        if (ndiff or not info["proof_ok"]) and not fresh():
            # (D): the tie or a proof broke — search 10x for a concrete failing input of the property itself
            r2 = self.explore(seed + 7919, 10 * n, "search", model=False)
            _, nor2 = self.analyse(r2, out, stats)
            searched = r2["nq"]
            if not fresh() and ndiff:
                qid = next(iter(stats.get("diff_queries", {})))
                t, q = res["meta"][qid]
                p = self.case_payload(t, q, qid)
                p.update({"broken": "correspondence " + self.CORRESPONDENCE, "disagreements": stats["diff_queries"][qid],
                          "no_failing_input_found": True})
                out.violation(self.PROP + ":correspondence", "model and implementation disagree; the property oracle found no failing input", p)
        # coverage
        meta = res["meta"]
        distinct = set()
        dist = {}
        for qid, (t, q) in meta.items():
            for d, x in enumerate(q[0]):
                rc = region_class(t, d, x)
                dist[rc] = dist.get(rc, 0) + 1
            if self.nontrivial(t, q):
                distinct.add((tuple(map(tuple, t.knots)), tuple(t.orders), tuple(hexd(v) for v in q[0]), tuple(q[1]), tuple(map(tuple, q[2]))))
        samples = []
        for qid in list(meta)[:3]:
            t, q = meta[qid]
            samples.append({"table": t.describe(), "x": [repr(v) for v in q[0]], "classes": q[4], "masks": list(q[1]), "ks": [list(k) for k in q[2]],
                            "impl": {f: dict(list(res["impl"][f].get(qid, {}).items())[:6]) for f in res["impl"]}})
        dims = {}
        for t, _ in {id(m[0]): m for m in meta.values()}.values():
            dims[t.ndim] = dims.get(t.ndim, 0) + 1
        cov = {"evaluations": nq + searched + stats.get("corpus_cases", 0), "distinct_nontrivial": len(distinct),
               "rule": self.RULE, "samples": samples, "input_distribution": {"coordinate_region_classes": dist, "tables_by_ndim": dims},
               "traces_validated_against_impl": stats.get("traces_validated_against_impl", 0),
               "compared_values": stats.get("compared_values", 0), "model_vs_impl_disagreeing_queries": ndiff,
               "flavours": [f for f, _ in self.flavours()], "search_volume_after_break": searched}
        return cov

    def load_corpus(self):
        d = os.path.join(VERIF, "corpus", self.PROP)
        cases = []
        if os.path.isdir(d):
            for f in sorted(os.listdir(d)):
                if f.endswith(".json"):
                    cases.append(self.case_from_payload(json.load(open(os.path.join(d, f)))))
        return cases

    def case_from_payload(self, p):
        tj = p["table"]
        t = Table(tj["orders"], [[dfrom(int(h, 16)) for h in k] for k in tj["knots"]], [ffrom(int(h, 16)) for h in tj["coefs"]], dfrom(int(tj["pad"], 16)))
        q = ([dfrom(int(h, 16)) for h in p["x"]], p.get("masks", []), p.get("ks", []), p.get("flags", []), p.get("classes", []))
        return (t, [q])

    def replay(self, path, out):
        p = json.load(open(path))
        if "table" not in p:
            print("replay file names a broken obligation, not an input: %s" % p.get("broken"))
            return {"evaluations": 1, "distinct_nontrivial": 2}
        case = self.case_from_payload(p)
        res = self.execute([case], "replay")
        stats = {}
        nd, no = self.analyse(res, out, stats)
        for f, impl in res["impl"].items():
            for qid, o in impl.items():
                print("impl[%s] %s" % (f, o))
        for qid, o in res["model"].items():
            print("model %s" % o)
        print("replay: %d disagreeing queries, %d oracle failures" % (nd, no))
        return {"evaluations": res["nq"], "distinct_nontrivial": 2, "rule": "replay of " + path, "samples": [p.get("x_float")]}
