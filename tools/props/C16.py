"""C16 — auxiliary keys behave as an ordered string map that survives serialisation.

Correspondence: random operation sequences (length <= 40) are run through harness/C16_harness.cpp (the real
splinetable<>, C++ members and C wrappers, FITS round trips on disk and in memory) and through the extracted
Coq model (extract/aux_driver.ml); after every operation the result / exception class and the complete store
are compared exactly. Oracle: the property's own statement is evaluated on the implementation's output with an
independent ordered-dict reference. Failing sequences are shrunk to a minimal operation list."""
import glob, json, os, re, struct, subprocess, sys, tempfile, hashlib
from common import *
import common as _c

PROPERTIES_FILE = "Properties_C16"
ASSUMPTIONS = [
    "keys and values are NUL-free byte strings; the round-trip theorem is stated for printable ASCII (cfitsio blanks every other character; modelled and compared, reported as a finding when generated)",
    "cfitsio 4.2 card formatting/parsing (ffs2c, ffmkky, ffgknm, ffpsvc, header ends at the END card) is an environment model inside AuxModel.v, tied to the real library by the FD/FM operations of this run",
    "operator<<(int) / operator>>(int) modelled as decimal print / parse with the C locale's white space; double formatting is done by the test driver ('%g') and checked by the oracle only",
    "allocation failure paths of write_key/remove_key are not modelled",
]
TRUSTED_EXTRA = ["tools/translators/aux.py (reserved keyword lists, limits and fix markers -> Generated_aux.v; skeleton hashes of every transcribed function, fails closed)",
                 "harness/C16_harness.cpp, extract/aux_driver.ml, tools/props/C16.py (generator, comparison, oracle, shrinker)"]

# ------------------------------------------------------------------------------------------------ helpers
def hx(s):
    return "-" if s == "" else s.encode("latin1").hex()
def unhx(h):
    if h == "-":
        return ""
    if h == "NULL":
        return None
    return bytes.fromhex(h).decode("latin1")

def fmt_g(x):
    """text std::ostream << double produces with default flags (precision 6, %g)"""
    return "%g" % x

def encode_ops(seqs):
    """seqs: list of (id, ops); op = list [opname, args...] with python strings/ints"""
    out = []
    for sid, ops in seqs:
        out.append("S %s" % sid)
        for o in ops:
            n = o[0]
            if n in ("Ws", "Wc"):
                out.append("%s %s %s" % (n, hx(o[1]), hx(o[2])))
            elif n in ("Wi", "Ci"):
                out.append("%s %s %d" % (n, hx(o[1]), o[2]))
            elif n in ("Wd", "Cd"):
                x = dfrom(int(o[2], 16))
                out.append("%s %s %s %s" % (n, hx(o[1]), o[2], hx(fmt_g(x))))
            elif n in ("FD", "FM"):
                out.append(n)
            elif n == "K":
                out.append("K %d" % o[1])
            else:
                out.append("%s %s" % (n, hx(o[1])))
    return "\n".join(out) + "\n"

def parse_store(txt):
    if txt == "-":
        return []
    return [tuple(unhx(x) for x in e.split(":")) for e in txt.split(",")]

LINE = re.compile(r"^(\S+)\.(\d+) (\S+) res=(\S+) store=(\S+)(?: lookup=(\S+))?$")
def parse_output(text):
    """-> {seqid: [(op, res, store_txt, lookup_txt)]}"""
    d = {}
    for l in text.split("\n"):
        m = LINE.match(l)
        if m:
            d.setdefault(m.group(1), []).append((m.group(3), m.group(4), m.group(5), m.group(6)))
    return d

# ------------------------------------------------------------------------------------------------ generator
SHORT_KEYS = ["A", "AB", "N", "KEY1", "ABCDEFGH", "12345678", "0", "X9", "GEOTYPE", "LEVEL", "Q"]
LONG_KEYS = ["LONGKEY_ABC", "A VERY LONG KEY", "A.B.C.D.E.F", "LONG KEY / SLASH", "LONG'QUOTE'KEY", "A  B  C  D  E", "ABCDEFGHI", "HIERARCHABC",
             "K" * 20, "K" * 58, "K" * 59, "K" * 60, "K" * 65, "K" * 66, "K" * 67, "K" * 68, "K" * 70, "K" * 75, "K 2 3 4 5 6 7 8 9 0 1 2 3 4 5 6 7 8 9 0"]
RESERVED_KEYS = ["TYPE", "TYPEX", "ORDER", "ORDER0", "NAXIS", "NAXIS1", "PERIOD3", "BITPIX", "SIMPLE", "EXTEND", "COMMENT", "COMMENTS", "ORDER OF THINGS", "BITPIXELS ARE"]
NEAR_RESERVED = ["TYP", "ORDE", "PERIO", "XTYPE", "NAXI", "SIMPL", "ENDTIME", "HISTORYX", "ENDING", "XEND", "PCOUNTS", "COMMEN", "EXTNAMES", "EXTNAM", "HDUNAME2", "XHDUNAME"]
# every whole-name reserved word extended past its end (one more character, a blank and more, beyond eight characters), cut short, and prefixed:
# all of these are ordinary auxiliary keys
for _w in ["END", "HISTORY", "CONTINUE", "PCOUNT", "GCOUNT", "EXTNAME", "HDUNAME"]:
    for _k in (_w + "X", _w + "D RUN", _w + "FLAG", _w + " X", _w[:-1], "X" + _w, _w + "S AND MORE THINGS"):
        if _k not in NEAR_RESERVED:
            NEAR_RESERVED.append(_k)
LOWER_KEYS = ["abc", "Key", "lowercase long key", "MiXED", "LONG KEY with lower", "a"]
PUNCT_KEYS = ["A-B", "A_B", "A B", "A=B", "LONG=KEY=WITH=EQ", "A.B", "A/B", "LONGKEY9.", "#HASHLONGKEY", "A'B", "KEY WITH = SIGN"]
# EXTNAME / HDUNAME: the names fits_movnam_hdu compares (the primary HDU included) when the reader looks for KNOTSn / EXTENTS; reserved since the
# repair of C06:aux-key:EXTNAME-shadows-KNOTSn (repo commit F22_1) — the model (translated list) predicts the rejection
STRUCT_KEYS = ["END", "HISTORY", "CONTINUE", "", "PCOUNT", "GCOUNT", "EXTNAME", "EXTNAME", "HDUNAME", "HDUVER", "BZERO", "BSCALE", "BLANK", "XTENSION", "HIERARCH", "DATE", "CHECKSUM", "GROUPS", "EXTVER"]
BLANK_KEYS = [" LEADING SPACE", "TRAILING SPACE ", "HIERARCH ABC DEF", "HIERARCH X", "  TWO LEADING", "HIERARCH  TWOSP", "         ", "          X"]
NONPRINT_KEYS = ["A\x01LONGKEYCTRL", "TAB\tINLONGKEY", "LONGKEY\xe9HIGH", "LONGKEYCTRL\x02"]
# names the FITS standard / cfitsio give a meaning to elsewhere (world coordinates, table columns, checksums, observation metadata):
# ordinary auxiliary keys here
STD_KEYS = ["CTYPE1", "CRVAL2", "CRPIX3", "CDELT1", "CUNIT2", "CD1_1", "PC2_2", "TDIM3", "TFORM1", "TTYPE2", "TUNIT1", "TNULL1", "TSCAL1", "TZERO1",
            "BUNIT", "DATAMIN", "DATAMAX", "DATE-OBS", "TELESCOP", "INSTRUME", "OBSERVER", "OBJECT", "AUTHOR", "REFERENC", "EQUINOX", "EPOCH",
            "RADESYS", "LONPOLE", "CHECKSUM", "DATASUM", "ORIGIN", "DATE", "TFIELDS", "WCSAXES", "MJD-OBS", "CREATOR"]
KEY_CLASSES = [("std", STD_KEYS, 6), ("short", SHORT_KEYS, 30), ("long", LONG_KEYS, 22), ("reserved", RESERVED_KEYS, 8), ("near", NEAR_RESERVED, 9), ("lower", LOWER_KEYS, 5),
               ("punct", PUNCT_KEYS, 7), ("struct", STRUCT_KEYS, 10), ("blank", BLANK_KEYS, 5), ("nonprint", NONPRINT_KEYS, 1), ("random", None, 6)]
KEY_CHARS = "ABCDEFGHIJKLMNOPQRSTUVWXYZ0123456789 -_.=/'abz"
VAL_CHARS = "abcXYZ019 '/=&.-+_\"~#"
INTS = [0, 1, -1, 42, -42, 2147483647, -2147483648, 1000000, 7, 99999]
INT_TEXT = ["12abc", "+5", "-", " 42", "99999999999", "-99999999999", "1e5", "0x10", "007", "-0", "+", "4 2", "\t 17", "2147483648", "-2147483649", "3.75", "--5", "+-5"]
DBL_TEXT = ["1.5", "-2.25e10", "1e-300", "inf", "0.1", " 3.5", "2.5 ", "1e400", ".5", "5.", "1e", "abc", "nan(1)"]

def key_class(k):
    for name, lst, _ in KEY_CLASSES:
        if lst and k in lst:
            return name
    return "random"

def gen_key(rng, present):
    if present and rng.chance(0.45):
        return rng.choice(present)
    tot = sum(w for _, _, w in KEY_CLASSES)
    r = rng.below(tot)
    for name, lst, w in KEY_CLASSES:
        if r < w:
            if lst:
                return rng.choice(lst)
            n = rng.choice([rng.rint(0, 8), rng.rint(9, 14), rng.rint(55, 70)])
            return "".join(rng.choice(KEY_CHARS) for _ in range(n))
        r -= w
    return "A"

def value_limit(k):
    return 68 if len(k) <= 8 else max(0, 67 - len(k))

def gen_string_value(rng, k):
    lim = value_limit(k)
    c = rng.below(16)
    if c == 0:
        return ""
    if c == 1:
        return "x" * lim
    if c == 2:
        return "y" * (lim + 1)
    if c == 3:   # quotes at the limit once doubled
        nq = rng.rint(1, 3)
        return "q" * max(0, lim - 2 * nq) + "'" * nq
    if c == 4:
        nq = rng.rint(1, 3)
        return "q" * max(0, lim - 2 * nq + 1) + "'" * nq
    if c == 5:
        return rng.choice(["it's", "'", "''", "a''b", "'x", "x'", "' / x", "'''", "'" * 34, "'" * 35, "x" * 67 + "'", "x" * 66 + "''"])
    if c == 6:
        return rng.choice(["  ab", "ab  ", "  ab  ", " ", "        ", " " * 68, "a" + " " * 30, " a b "])
    if c == 7:
        return rng.choice(INT_TEXT)
    if c == 8:
        return rng.choice(DBL_TEXT)
    if c == 9:
        return rng.choice(["a / b", "T", "&", "abc&", "x=y", "'quoted'", "\"dq\"", "a,b:c;d", "KNOTS0", "KNOTS0", "EXTENTS", "KNOTS1"])
    if c == 10 and rng.chance(0.3):
        return rng.choice(["tab\there", "nl\nhere", "\x01", "caf\xe9"])
    n = rng.choice([rng.rint(1, 10), rng.rint(0, lim + 2), rng.rint(max(0, lim - 3), lim + 1)])
    return "".join(rng.choice(VAL_CHARS) for _ in range(n))

def gen_double(rng):
    c = rng.below(6)
    if c == 0:
        return rng.choice([0.0, 0.5, -1.25, 1e300, 1e-300, 123456789.0, 3.14159265358979, float("inf"), -float("inf"), 1e-5, 100000.0, 1000000.0])
    if c == 1:
        return float(rng.rint(-1000, 1000))
    return (rng.unit() - 0.5) * 10.0 ** rng.rint(-10, 10)

def gen_sequence(rng, can_remove=True):
    n = rng.choice([rng.rint(1, 8), rng.rint(8, 25), rng.rint(25, 40), 40])
    ops, present = [], []
    for _ in range(n):
        r = rng.below(100)
        k = gen_key(rng, present)
        if r < 30:
            ops.append(["Ws" if rng.chance(0.8) else "Wc", k, gen_string_value(rng, k)])
        elif r < 38:
            ops.append(["Wi", k, rng.choice(INTS) if rng.chance(0.5) else rng.rint(-2147483648, 2147483647)])
        elif r < 43:
            ops.append(["Wd", k, "%016x" % dbits(gen_double(rng))])
        elif r < 46:
            ops.append(["Ci", k, rng.choice(INTS)])
        elif r < 48:
            ops.append(["Cd", k, "%016x" % dbits(gen_double(rng))])
        elif r < 58 and can_remove:
            ops.append(["R", k])
        elif r < 65:
            ops.append(["G", k])
        elif r < 71:
            ops.append(["Ri", k])
        elif r < 74:
            ops.append(["Rd", k])
        elif r < 79:
            ops.append(["Rs", k])
        elif r < 83:
            ops.append(["Xi", k])
        elif r < 85:
            ops.append(["Xd", k])
        elif r < 89:
            ops.append(["K", rng.rint(0, 6)])
        elif r < 93:
            ops.append(["FD"])
        else:
            ops.append(["FM"])
        if ops[-1][0][0] in "WC" and ops[-1][1] not in present:
            present.append(ops[-1][1])
    return ops

# ------------------------------------------------------------------------------------------------ oracle
FLOAT_RE = re.compile(r"[ \t\n\v\f\r]*[+-]?(\d+\.?\d*([eE][+-]?\d+)?|\.\d+([eE][+-]?\d+)?)")
INT_RE = re.compile(r"[ \t\n\v\f\r]*([+-]?\d+)")
OWN_PREFIXES = ["BITPIX", "SIMPLE", "TYPE", "ORDER", "NAXIS", "PERIOD", "EXTEND"]

def entry_class(k, v):
    """class of a (key, value) for violation signatures"""
    if any(ord(c) < 32 or ord(c) > 126 for c in k + v):
        return "nonprintable"
    if k == "END":
        return "key-END"
    if k in ("HISTORY", "COMMENT", "CONTINUE", ""):
        return "commentary-key"
    if k in ("PCOUNT", "GCOUNT"):
        return "key-PCOUNT-GCOUNT"
    if k in ("EXTNAME", "HDUNAME"):
        return "key-EXTNAME-HDUNAME"
    if len(k) > 66:
        return "overlong-key"
    if len(k) > 8 and (k[0] == " " or k[-1] == " " or k.startswith("HIERARCH ")):
        return "long-key-blank-or-HIERARCH-prefix"
    if "'" in v:
        return "value-with-quote"
    if len(k) > 8:
        return "long-key"
    return "plain"

def oracle_sequence(ops, iout):
    """The property evaluated on the implementation's own output. ops: op list, iout: [(op,res,store,lookup)].
    Returns list of (signature, what, op index)."""
    fails = []
    ref = []          # insertion-ordered list of [k, v]
    def refget(k):
        for e in ref:
            if e[0] == k:
                return e[1]
        return None
    for i, o in enumerate(ops):
        if i >= len(iout):
            fails.append(("C16:crash", "implementation produced no output for operation %d (%s)" % (i, o[0]), i))
            break
        name, res, store_txt, lookup_txt = iout[i]
        store = parse_store(store_txt)
        before = [tuple(e) for e in ref]
        if name in ("Ws", "Wc", "Wi", "Wd", "Ci", "Cd"):
            k = o[1]
            v = o[2] if name in ("Ws", "Wc") else (str(o[2]) if name in ("Wi", "Ci") else fmt_g(dfrom(int(o[2], 16))))
            accepted = res in ("1", "0", "rc0")
            if res.startswith("E_other"):
                fails.append(("C16:write_key:unexpected-exception", "write_key(%r,%r) threw %s" % (k, v, res), i))
            if accepted:
                was = refget(k)
                if res == "1" and was is not None:
                    fails.append(("C16:write_key:return-value", "write_key(%r) returned true (appended) but the key was present" % k, i))
                if res == "0" and was is None:
                    fails.append(("C16:write_key:return-value", "write_key(%r) returned false (overwritten) but the key was absent" % k, i))
                if was is None:
                    ref.append([k, v])
                else:
                    for e in ref:
                        if e[0] == k:
                            e[1] = v
                            break
                if store != [tuple(e) for e in ref]:
                    fails.append(("C16:write_key:%s" % ("overwrite" if was is not None else "append"),
                                  "after an accepted write_key(%r,%r) the store is %r, an insertion-ordered map holds %r" % (k, v, store, ref), i))
                    ref = [list(e) for e in store]
            else:
                if store != before:
                    fails.append(("C16:write_key:reject-changed-store", "write_key(%r,%r) was rejected (%s) but the store changed from %r to %r" % (k, v, res, before, store), i))
                    ref = [list(e) for e in store]
        elif name == "R":
            k = o[1]
            if res == "UNSUPPORTED":
                continue
            was = refget(k)
            if (res == "1") != (was is not None):
                fails.append(("C16:remove_key:return-value", "remove_key(%r) returned %s but the key was %s" % (k, res, "present" if was is not None else "absent"), i))
            ref = [e for e in ref if e[0] != k]
            if store != [tuple(e) for e in ref]:
                fails.append(("C16:remove_key:store", "after remove_key(%r) the store is %r, expected %r (exactly that key deleted, order kept)" % (k, store, ref), i))
                ref = [list(e) for e in store]
        elif name == "G":
            want = refget(o[1])
            got = res
            if "/C:" in res:
                fails.append(("C16:get_key:c-differs", "splinetable_get_key differs from get_aux_value: %s" % res, i))
                got = res.split("/C:")[0]
            if unhx(got) != want:
                fails.append(("C16:get_aux_value:lookup", "get_aux_value(%r) = %r, most recently stored value is %r" % (o[1], unhx(got), want), i))
        elif name == "Rs":
            want = refget(o[1])
            if want is None:
                if res != "fail":
                    fails.append(("C16:read_key:absent-not-reported", "read_key<string>(%r) succeeded on an absent key" % o[1], i))
            elif res != "ok:" + hx(want):
                fails.append(("C16:read_key:string", "read_key<string>(%r) = %s, stored %r" % (o[1], res, want), i))
        elif name in ("Ri", "Xi"):
            want = refget(o[1])
            if want is None:
                if name == "Ri" and res != "fail":
                    fails.append(("C16:read_key:absent-not-reported", "read_key<int>(%r) succeeded on an absent key" % o[1], i))
                if name == "Xi" and res.startswith("rc0"):
                    fails.append(("C16:splinetable_read_key:absent-not-reported", "splinetable_read_key(INT,%r) returned 0 for an absent key (result untouched: %s)" % (o[1], res), i))
            else:
                m = re.fullmatch(r"[ \t\n\v\f\r]*([+-]?\d+)[ \t\n\v\f\r]*", want)
                if m and -2147483648 <= int(m.group(1)) <= 2147483647:
                    exp = ("ok:%d" if name == "Ri" else "rc0:%d") % int(m.group(1))
                    if res != exp:
                        fails.append(("C16:read_key:int", "%s(%r) = %s but the stored string %r denotes %d" % (name, o[1], res, want, int(m.group(1))), i))
                elif not INT_RE.match(want):
                    if name == "Ri" and res != "fail":
                        fails.append(("C16:read_key:int", "read_key<int>(%r) succeeded on %r which denotes no integer" % (o[1], want), i))
                    if name == "Xi" and res.startswith("rc0"):
                        fails.append(("C16:splinetable_read_key:failure-not-reported", "splinetable_read_key(INT,%r) returned 0 for %r which denotes no integer" % (o[1], want), i))
        elif name in ("Rd", "Xd"):
            want = refget(o[1])
            if want is None:
                if name == "Rd" and res != "fail":
                    fails.append(("C16:read_key:absent-not-reported", "read_key<double>(%r) succeeded on an absent key" % o[1], i))
                if name == "Xd" and res.startswith("rc0"):
                    fails.append(("C16:splinetable_read_key:absent-not-reported", "splinetable_read_key(DOUBLE,%r) returned 0 for an absent key" % o[1], i))
            else:
                m = re.fullmatch(r"[ \t\n\v\f\r]*([+-]?(\d+\.?\d*([eE][+-]?\d+)?|\.\d+([eE][+-]?\d+)?))[ \t\n\v\f\r]*", want)
                if m:
                    x = float(m.group(1))
                    if x not in (float("inf"), -float("inf")) and (x == 0.0 or abs(x) >= 2.3e-308):
                        exp = ("ok:" if name == "Rd" else "rc0:") + "%016x" % dbits(x)
                        if res != exp:
                            fails.append(("C16:read_key:double", "%s(%r) = %s but the stored string %r denotes %r" % (name, o[1], res, want, x), i))
        elif name == "K":
            keys = [e[0] for e in ref]
            exp = hx(keys[o[1]]) if o[1] < len(keys) else "range"
            if res != exp:
                fails.append(("C16:get_aux_key:order", "get_aux_key(%d) = %s, insertion order gives %s" % (o[1], res, exp), i))
        elif name in ("FD", "FM"):
            path = "disk" if name == "FD" else "mem"
            if res != "ok":
                cls = sorted(set(entry_class(k, v) for k, v in before) - {"plain", "long-key"}) or ["plain"]
                fails.append(("C16:roundtrip:write-or-read-fails:%s" % cls[0], "%s round trip of accepted entries failed with %s; store %r" % (path, res, before), i))
                ref = [list(e) for e in store]
            else:
                bad = None
                if [e[0] for e in store] != [e[0] for e in before]:
                    # first accepted entry that is missing or renamed
                    for j, e in enumerate(before):
                        if j >= len(store) or store[j][0] != e[0]:
                            bad = ("key", e, store[j] if j < len(store) else None)
                            break
                    if bad is None:
                        bad = ("key", None, store[len(before)] if len(store) > len(before) else None)
                else:
                    for e, f in zip(before, store):
                        if e[1].rstrip(" ") != f[1].rstrip(" "):
                            bad = ("value", e, f)
                            break
                if bad:
                    kind, e, f = bad
                    cls = entry_class(*e) if e else "extra-entry"
                    if kind == "key" and cls in ("plain", "long-key", "value-with-quote"):
                        # the entry itself is unremarkable: it was lost because of an earlier one (e.g. END)
                        others = sorted(set(entry_class(k, v) for k, v in before) - {"plain", "long-key", "value-with-quote"})
                        cls = "after-" + others[0] if others else cls
                    fails.append(("C16:roundtrip:%s-not-intact:%s" % (kind, cls),
                                  "%s round trip: accepted entry %r came back as %r (store before %r, after %r)" % (path, e, f, before, store), i))
                ref = [list(e) for e in store]
        # full store agreement after every operation (non-round-trip ops are covered above; this also catches reads that modify)
        if name in ("G", "Rs", "Ri", "Rd", "Xi", "Xd", "K") and store != before:
            fails.append(("C16:read-modified-store", "%s changed the store from %r to %r" % (name, before, store), i))
            ref = [list(e) for e in store]
        if lookup_txt is not None:
            fails.append(("C16:duplicate-key", "get_aux_value does not return the stored value of every entry: entries %s lookups %s" % (store_txt, lookup_txt), i))
    return fails

# ------------------------------------------------------------------------------------------------ running both sides
class Runner:
    def __init__(self, can_remove):
        self.can_remove = can_remove
        self.exes = {}
        self.model = build_extracted("aux")
        self.tmp = tempfile.mkdtemp(prefix="c16_", dir=build_dir("C16-tmp"))
    def harness(self, flavour):
        if flavour not in self.exes:
            flags = [] if self.can_remove else ["-DC16_NO_REMOVE"]
            self.exes[flavour] = build_harness("C16_harness", ["C16_harness.cpp"], flavour=flavour, extra_flags=flags, tag="C16-" + flavour)
        return self.exes[flavour]
    def run(self, seqs, flavour="faithful"):
        """-> (impl outputs by seq id, model outputs by seq id, sanitizer/crash text)"""
        path = os.path.join(self.tmp, "cases_%d.in" % os.getpid())
        with open(path, "w") as f:
            f.write(encode_ops(seqs))
        env = dict(os.environ, ASAN_OPTIONS="detect_leaks=1:exitcode=23", UBSAN_OPTIONS="print_stacktrace=1")
        pi = subprocess.run([self.harness(flavour), path, self.tmp], timeout=1800, env=env, stdout=subprocess.PIPE, stderr=subprocess.PIPE, encoding="utf-8", errors="replace")
        pm = _c.run([self.model, path], timeout=1800)
        if pm.returncode != 0:
            raise RuntimeError("model driver failed: " + pm.stderr[-2000:])
        diag = ""
        if pi.returncode != 0:
            diag = "exit status %d\n" % pi.returncode + "\n".join(l for l in pi.stderr.split("\n") if "ERROR" in l or "runtime error" in l or "SUMMARY" in l or l.startswith("    #"))[:3000]
        return parse_output(pi.stdout), parse_output(pm.stdout), diag

def compare_sequence(sid, ops, iout, mout):
    """exact comparison of result and store after every op; returns list of (signature, what, index)"""
    fails = []
    io, mo = iout.get(sid, []), mout.get(sid, [])
    for i, o in enumerate(ops):
        if i >= len(io):
            fails.append(("C16:crash", "implementation stopped before operation %d of %d (%s)" % (i, len(ops), o[0]), i))
            break
        a, b = io[i], mo[i]
        if b[1] != "*" and a[1] != b[1]:
            fails.append(("C16:model-vs-impl:%s:result" % o[0], "operation %d %r: implementation returned %s, model %s" % (i, o, a[1], b[1]), i))
            break
        if a[2] != b[2]:
            fails.append(("C16:model-vs-impl:%s:store" % o[0], "operation %d %r: implementation store %r, model store %r" % (i, o, parse_store(a[2]), parse_store(b[2])), i))
            break
    return fails

def evaluate(runner, seqs, flavour="faithful"):
    """-> {sid: [(signature, what, index, kind)]}, diag"""
    iout, mout, diag = runner.run(seqs, flavour)
    res = {}
    for sid, ops in seqs:
        f = [(s, w, i, "correspondence") for s, w, i in compare_sequence(sid, ops, iout, mout)]
        f += [(s, w, i, "oracle") for s, w, i in oracle_sequence(ops, iout.get(sid, []))]
        if f:
            res[sid] = f
    return res, diag, iout, mout

def shrink(runner, ops, signature, flavour):
    """greedy removal of single operations while the same signature is still reported"""
    cur = list(ops)
    for _ in range(60):
        cands = [(("c%d" % j), cur[:j] + cur[j + 1:]) for j in range(len(cur))]
        if not cands:
            break
        res, _, _, _ = evaluate(runner, cands, flavour)
        nxt = None
        for sid, c in cands:
            if any(s == signature for s, _, _, _ in res.get(sid, [])):
                nxt = c
                break
        if nxt is None:
            break
        cur = nxt
    # shorten string values of the remaining writes where possible
    return cur

def nontrivial(ops):
    """rule: the sequence has an overwrite or a removal of a present key, or a round trip of a non-empty store, or a rejected write"""
    kinds = set(o[0] for o in ops)
    return bool(kinds & {"R", "FD", "FM"}) and len(ops) >= 3

# ------------------------------------------------------------------------------------------------ entry point
def remove_key_compiles():
    gen = os.path.join(COQDIR, "theories", "Generated_aux.v")
    try:
        return "gen_remove_key_compiles : bool := true" in open(gen).read()
    except FileNotFoundError:
        return True

def report(out, runner, sid, ops, findings, flavour, iout, mout, seen):
    for sig, what, idx, kind in findings:
        if sig in seen:
            continue
        seen.add(sig)
        small = shrink(runner, ops, sig, flavour)
        res, _, io, mo = evaluate(runner, [("min", small)], flavour)
        out.violation(sig, what, {"ops": small, "original_ops": ops, "kind": kind, "flavour": flavour,
                                  "impl_output": io.get("min"), "model_output": mo.get("min"),
                                  "oracle_and_comparison_on_minimal": [(s, w, i, k) for s, w, i, k in res.get("min", [])],
                                  "how_to_replay": "./check C16 quick --replay <this file>"})

def run(info, out):
    tier, seed = info["tier"], info["seed"]
    can_remove = remove_key_compiles()
    runner = Runner(can_remove)
    seen = set()
    cov = {"correspondence": "AuxModel (extracted) vs splinetable<> aux store: C++ members, C wrappers, write_fits/read_fits, write_fits_mem/read_fits_mem",
           "rule": "operation sequences of length 1..40 over keys {short standard, HIERARCH-length, reserved prefixes and near misses, lower case, punctuation, FITS structural keywords, "
                   "blank-padded/HIERARCH-prefixed, random, (rarely) non-printable} x values {int, double, strings: empty, at/over the length limit, quotes at the limit, blanks, integer/float look-alikes}; "
                   "non-trivial = at least 3 operations including a removal or a FITS round trip; distinct by the encoded operation list"}
    if not can_remove:
        out.violation("C16:remove_key:does-not-compile", "remove_key is ill-typed (char** assigned to char*): it cannot be instantiated; sequences run without removals",
                      {"ops": [["Ws", "A", "x"], ["R", "A"]], "detail": "g++: cannot convert 'char**' to 'char*' in assignment (aux.h remove_key)"})
    # ---- replay
    if info.get("replay"):
        payload = json.load(open(info["replay"]))
        ops = payload["ops"]
        flavour = payload.get("flavour", "faithful")
        res, diag, io, mo = evaluate(runner, [("replay", ops)], flavour)
        print("replay of %s (%d operations, %s build)" % (info["replay"], len(ops), flavour))
        for i, o in enumerate(ops):
            a = io.get("replay", [])
            b = mo.get("replay", [])
            print("  %2d %-60r impl: %s | model: %s" % (i, o, (a[i][1] + " " + repr(parse_store(a[i][2]))) if i < len(a) else "-", (b[i][1] + " " + repr(parse_store(b[i][2]))) if i < len(b) else "-"))
        for sig, what, idx, kind in res.get("replay", []):
            print("  -> %s [%s] (%s)" % (what, sig, kind))
            if sig not in seen:
                seen.add(sig)
                out.violation(sig, what, {"ops": ops, "kind": kind, "flavour": flavour})
        if diag:
            print(diag)
        if not res.get("replay"):
            print("  no violation on the current tree")
        cov.update({"evaluations": len(ops), "distinct_nontrivial": 1, "samples": [ops[:3]], "traces_validated_against_impl": 1, "input_distribution": {}})
        return cov
    # ---- corpus first
    n_eval, hist_ops, hist_res, distinct = 0, {}, {}, set()
    corpus = []
    for f in sorted(glob.glob(os.path.join(VERIF, "corpus", "C16", "*.json"))):
        corpus.append((os.path.basename(f)[:-5], json.load(open(f))["ops"]))
    rng = Rng(seed)
    nseq = 400 if tier == "quick" else 30000
    if not info["proof_ok"]:
        nseq *= 4 if tier == "quick" else 2
    seqs = list(corpus)
    for i in range(nseq):
        seqs.append(("s%d" % i, gen_sequence(rng.fork("seq%d" % i), can_remove)))
    batches = [("faithful", seqs)]
    nchk = 100 if tier == "quick" else 3000
    batches.append(("checked", corpus + seqs[len(corpus):len(corpus) + nchk]))
    samples = []
    traces = 0
    for flavour, batch in batches:
        for off in range(0, len(batch), 2000):
            part = batch[off:off + 2000]
            res, diag, iout, mout = evaluate(runner, part, flavour)
            for sid, ops in part:
                n_eval += len(ops)
                traces += 1
                if flavour == "faithful":
                    h = hashlib.sha256(encode_ops([("x", ops)]).encode()).hexdigest()
                    if nontrivial(ops):
                        distinct.add(h)
                    for o, r in zip(ops, iout.get(sid, [])):
                        hist_ops[o[0]] = hist_ops.get(o[0], 0) + 1
                        rr = r[1] if r[1].startswith("E_") or r[1] in ("fail", "NULL", "range", "rc1") else ("rc1" if r[1].startswith("rc1") else "ok")
                        hist_res[rr] = hist_res.get(rr, 0) + 1
                    if len(samples) < 3 and nontrivial(ops) and len(ops) <= 12:
                        samples.append({"ops": ops, "impl": [(r[1], r[2]) for r in iout.get(sid, [])]})
            for sid, ops in part:
                if sid in res:
                    report(out, runner, sid, ops, res[sid], flavour, iout, mout, seen)
            if diag:
                sig = "C16:sanitizer:" + ("leak" if "LeakSanitizer" in diag else "memory-error" if "AddressSanitizer" in diag else "undefined-behaviour" if "runtime error" in diag else "crash")
                if sig not in seen:
                    seen.add(sig)
                    # find the sequence that triggers it: run sequences one by one until the diagnostic appears
                    culprit = None
                    for sid, ops in part:
                        _, d1, _, _ = evaluate(runner, [(sid, ops)], flavour)
                        if d1:
                            culprit = shrink_diag(runner, ops, flavour)
                            break
                    out.violation(sig, "the %s build of the harness reported: %s" % (flavour, diag.split("\n")[1][:200] if "\n" in diag else diag[:200]),
                                  {"ops": culprit or [], "flavour": flavour, "diagnostic": diag, "no_failing_input_found": culprit is None, "broken": "sanitizer run"})
    if not info["proof_ok"] and not [v for v in out.violations if v[0] not in open_signatures("C16")]:
        out.notes.append("proof obligations are broken but %d sequences showed no disagreement and no property violation" % len(seqs))
    cov.update({"evaluations": n_eval, "distinct_nontrivial": len(distinct), "samples": samples, "traces_validated_against_impl": traces,
                "sequences": len(seqs), "corpus_cases": len(corpus), "checked_build_sequences": len(batches[1][1]),
                "input_distribution": {"operations": hist_ops, "results": hist_res}})
    return cov

def shrink_diag(runner, ops, flavour):
    cur = list(ops)
    for _ in range(60):
        nxt = None
        for j in range(len(cur)):
            c = cur[:j] + cur[j + 1:]
            _, d, _, _ = evaluate(runner, [("d", c)], flavour)
            if d:
                nxt = c
                break
        if nxt is None:
            break
        cur = nxt
    return cur
