"""C04 — center lookup accepts exactly the knot range and brackets the point."""
from evalfam import *

PROPERTIES_FILE = "Properties_C04"
ASSUMPTIONS = ["theorems hold for any arithmetic whose comparison is a total preorder on non-NaN values (OrdLaws); that IEEE binary64 comparison is one is assumed, not proved",
               "integer index arithmetic modelled unbounded (no uint32 wrap for nknots < 2^31)",
               "model EvalModel.searchcenters tied to the C++ by exact comparison of success flag and centers on this run's cases"]

class C04(EvalCheck):
    PROP = "C04"
    CORRESPONDENCE = "EvalModel.searchcenters vs splinetable::searchcenters / evaluator / tablesearchcenters"
    RULE = ("tables of 1..3 dims (orders 0..5, knot vectors from the minimal length, uniform/irregular/repeated/wild spacing, scales 1e-300..1e300) x "
            "coordinates drawn per dimension from {every knot, both float neighbours, midpoints, margins, first/last knot, beyond both ends, +-inf, huge, denormal, +-0}; "
            "non-trivial = at least one coordinate is not a plain interior random point; distinct by (knots, orders, coordinate bits)")
    def volume(self, tier):
        return 400 if tier == "quick" else 20000
    def keyfilter(self, k):
        return k.startswith("sc.") or ".op." in k
    def gen(self, rng, n):
        cases = []
        for ti in range(n):
            nd = rng.choice([1, 1, 1, 2, 3])
            style = rng.choice(["uniform", "irregular", "repeated", "repeated", "wild", "integer", "symm", "far", "multi", "clamped"])
            sr = rng.choice([(-2, 2), (-2, 2), (-300, -290), (290, 300), (-20, 20)])
            # long knot vectors too (the bisection then makes many steps): one-dimensional tables only, to keep the array small
            extra = rng.choice([0, 1, 3, 9, 40] + ([300, 2500] if nd == 1 else []))
            t = gen_table(rng, ndim=nd, max_coefs=3000, pattern=rng.choice(["const", "mixed"]), knot_style=style,
                          coef_style="rand", scale_range=sr, maxextra=extra)
            qs = []
            for qi in range(50):
                classes = IN_CLASSES + (OUT_CLASSES + ["denorm", "zero", "-zero"] if qi % 2 else [])
                xs, cl = gen_point(rng, t, classes, force_in=(qi % 2 == 0))
                qs.append((xs, [0], [], [], cl))
            cases.append((t, qs))
        return cases
    def oracle(self, t, q, iout, mout):
        """the property statement evaluated directly on the implementation's output"""
        xs = q[0]
        fails = []
        expect_ok = all(in_range(t, d, x) for d, x in enumerate(xs))
        # member function, evaluator object, C wrapper with a fresh output array, and the C wrapper with the output array holding stale
        # centers on entry (ch1..ch5: neighbour of the true center, the bisection's upper limit, margin spans, arbitrary)
        for path in sorted(k[3:] for k in iout if k.startswith("sc.")):
            v = iout.get("sc." + path)
            if v is None:
                continue
            ok, cs = v.split(":")
            if (ok == "1") != expect_ok:
                fails.append(("C04:accept-mismatch", "lookup %s but coordinates %s in (first knot, last knot] (%s)" % (
                    "succeeded" if ok == "1" else "failed", "are" if expect_ok else "are not", path)))
                continue
            if ok != "1":
                continue
            cl = [int(c) for c in cs.split(",")]
            for d, (x, c) in enumerate(zip(xs, cl)):
                k, o = t.knots[d], t.orders[d]
                n = len(k); na = n - o - 1
                if not (o <= c <= n - o - 2):
                    fails.append(("C04:center-range", "center %d outside [order, nknots-order-2] = [%d,%d] in dim %d (%s)" % (c, o, n - o - 2, d, path)))
                elif k[o] <= x < k[na]:
                    if not (k[c] <= x < k[c + 1]):
                        fails.append(("C04:bracket", "center %d does not bracket x=%r in dim %d (%s)" % (c, x, d, path)))
                elif x < k[o]:
                    if c != o:
                        fails.append(("C04:margin", "left margin: center %d != order %d in dim %d (%s)" % (c, o, d, path)))
                else:
                    # from knots[naxes] upwards: the last fully supported span, stepping down over zero-width spans on a
                    # repeated knot until a span of positive width (or index order) is reached
                    want = na - 1
                    while want > o and x == k[want]:
                        want -= 1
                    if c != want:
                        fails.append(("C04:margin", "upper end/right margin: center %d != %d (naxes-1 = %d, stepping over zero-width spans) in dim %d (%s)" % (c, want, na - 1, d, path)))
        # call operator: zero when lookup fails, the evaluated value otherwise
        for k, v in iout.items():
            if ".op." in k:
                pfx, _, path = k.split(".")
                if not expect_ok:
                    if int(v, 16) != 0:
                        fails.append(("C04:callop", "call operator returned %s for a point outside the table (%s)" % (v, k)))
                else:
                    ref = iout.get("%s.m0.%s" % (pfx, path))
                    if ref is not None and not hexlist_equal_mod_nan(ref, v):
                        fails.append(("C04:callop", "call operator %s differs from the evaluated value %s (%s)" % (v, ref, k)))
        return fails

def run(info, out):
    return C04().run(info, out)
