"""C06 — FITS serialisation round-trips every table exactly, in the documented layout.

Correspondence (the extracted Gallina model FitsModel.v is the independent reader AND writer):
  (1) random table -> real write_fits / write_fits_mem / C wrappers -> bytes -> model of_bytes  == table (exact)
  (2) model to_bytes(table) -> real read_fits / read_fits_mem / C wrappers                       == table (exact)
  (3) the library's own round trip: dumped object equal, operator==, bitwise-equal evaluation
  (4) shipped test_data/*.fits: model decode == real read, content hashes pinned in corpus/C06/shipped.json
  (5) a reader written directly against cfitsio in the harness, and a reader written in Python here (layout oracle),
      on the library's bytes; legacy variants (single ORDER, no EXTENTS, no PERIOD) through model and library.
  (6) the extracted hypothesis of C06_roundtrip, wf_table', is evaluated on every generated table (coverage.counts:
      tables_satisfying_theorem_hypotheses / tables_checked_against_theorem_hypotheses); wf_table' without wf_doc (to_doc t)
      would contradict the proved C06_wf_doc and is reported as a violation.
  (7) auxiliary values hold the quote character in every position (single, doubled, leading, trailing, runs, quotes only, at the
      length limit): every (key, value) is OFFERED to write_key; the extracted FitsModel.write_key_offer predicts which offers are
      refused (reserved name; encoded length, every quote counted twice, above the limit) and the harness reports what write_key
      did; the expected reloaded value is value + padding blanks (aux_reloaded, computed here and by the extracted definition) and
      is compared EXACTLY with what each reader returns.
Table text format (harness, OCaml driver, this file):
  order o..| naxes n..| strides s..| knots i hex64..| coef hex32..| extents hex64..|none | periods hex64..|none |
  periodtok hexstr..|none | aux hexkey hexval   (hexstr: hex of the bytes, '-' for the empty string)"""
import os, sys, json, hashlib, struct, shutil, subprocess, math
from common import *
from common import run as sh

PROPERTIES_FILE = "Properties_C06"
ASSUMPTIONS = [
    "the theorems are about the Gallina model FitsModel.v (L1: write_fits_core/read_fits_core logic, L2: the FITS subset); cfitsio and the C++ are tied to it differentially on every run, not verified",
    "data words are raw bit patterns: bit-for-bit equality of coefficients/knots/extents is a statement about N; cfitsio copies IEEE words unchanged for BITPIX -32/-64 with no BSCALE/BZERO (observed, not proved)",
    "integer arithmetic unbounded in the model (no uint64 wrap of the coefficient count; no-overflow is a stated hypothesis)",
    "auxiliary values: printable characters INCLUDING the quote in every position (the model reader un-doubles as read_fits_core does, fitsio.h 262-279; the model of write_key's limits, FitsModel.write_key_offer, counts a quote twice as aux.h 152 does and predicts every refusal); HIERARCH entries whose card needs cfitsio's compressed form 'key= value' (encoded length = 67 - keylen) are not generated (C06_write_key_fit_gap); auxiliary keys not colliding with keywords cfitsio itself interprets (BSCALE, BZERO, BLANK, XTENSION, ...); the names fits_movnam_hdu compares (EXTNAME, HDUNAME) ARE offered to write_key: the model (FitsModel.reserved over the list translated from reservedFitsKeyword) predicts the refusal and the reader skipping such a card in a foreign file",
    "wf_table' (hypothesis of C06_roundtrip) is a table-level predicate: limits of the C types and of the 80-column card in its standard 'HIERARCH key = value' form; operator== model (table_op_eq) is a hand transcription of splinetable.h 349-368, the real operator== is called on every round trip",
    "PERIODn header values are outside the property's list (%.15G formatting is not bit exact); carried as opaque text, compared only after parsing",
]
TRUSTED_EXTRA = ["tools/translators/fits_keywords.py (reservedFitsKeyword prefix list -> Generated_fits.v, fails closed)",
                 "extract/fits_driver.ml (byte <-> N conversion, table text I/O), harness/C06_harness.cpp, the Python layout oracle in tools/props/C06.py"]

SPECIAL32 = [0x7fc00000, 0xffc00000, 0x7f800001, 0xff800001, 0x7fffffff, 0x7f800000, 0xff800000, 0x80000000, 0x00000000,
             0x00000001, 0x80000001, 0x007fffff, 0x00800000, 0x7f7fffff, 0xff7fffff, 0x3f800000, 0x7fc12345]
SPECIAL64 = [0x7ff8000000000000, 0x7ff0000000000000, 0xfff0000000000000, 0x8000000000000000, 0x0000000000000001,
             0x000fffffffffffff, 0x7fefffffffffffff, 0xffefffffffffffff]
# the names fits_movnam_hdu compares when the reader looks for KNOTSn / EXTENTS (its search starts at the primary HDU): reserved since the
# repair of C06:aux-key:EXTNAME-shadows-KNOTSn. The generator offers them to write_key; whether an offer is refused is asked of the model.
NAME_KEYS = [b"EXTNAME", b"HDUNAME"]
NAME_VALUES = [b"KNOTS0", b"KNOTS1", b"KNOTS2", b"EXTENTS", b"PRIMARY", b"knots0", b"KNOTS", b"", b"X"]
NEAR_NAME_KEYS = [b"EXTNAMES", b"EXTNAM", b"HDUNAME2", b"HDUNAM", b"XEXTNAME", b"EXTVER", b"HDUVER", b"EXTLEVEL"]   # accepted: exact match only; versions are not compared (extver 0)
AVOID_KEYS = {"END", "HISTORY", "CONTINUE", "BSCALE", "BZERO", "BLANK", "XTENSION", "PCOUNT", "GCOUNT",
              "HIERARCH", "CHECKSUM", "DATASUM", "BUNIT", "DATAMAX", "DATAMIN", "GROUPS", "INHERIT", "ZIMAGE", "TFIELDS"}
RESERVED = ["BITPIX", "SIMPLE", "TYPE", "ORDER", "NAXIS", "PERIOD", "EXTEND", "COMMENT"]

def hx(b):
    return b.hex() if b else "-"
def enc_len(b):
    """write_key's encodedlen (aux.h 152): every quote is doubled on the card"""
    return len(b) + b.count(b"'")
def reloaded(b):
    """FitsWf.aux_reloaded: the value a reader returns — the value itself (quotes single again) followed by the blanks that padded its
    doubled card text to 8 characters"""
    return b + b" " * max(0, 8 - enc_len(b))
def max_data_len(key):
    """write_key's maxdatalen (aux.h 89, 136)"""
    return 68 if len(key) <= 8 else 80 - (13 + len(key))
def cfitsio_double(v):
    s = "%.15G" % v
    if "." not in s and "E" not in s and "N" not in s:
        s += "."
    return s

class Case:
    def __init__(self, orders, knots, coefs, extents, periods, aux):
        self.orders, self.knots, self.coefs, self.extents, self.periods, self.aux = orders, knots, coefs, extents, periods, aux
        # offers: every (key, value) handed to write_key, in order. aux: the ones the table then holds, refused: the others —
        # Runner.split_offers asks the model (FitsModel.reserved) which is which; until then every offer counts as stored
        self.offers, self.refused = list(aux), []
        self.ndim = len(orders)
        self.naxes = [len(k) - o - 1 for k, o in zip(knots, orders)]
        st = [1] * self.ndim
        for i in range(self.ndim - 2, -1, -1):
            st[i] = st[i + 1] * self.naxes[i + 1]
        self.strides = st
    def default_extents(self):
        e = []
        for k, o in zip(self.knots, self.orders):
            e += [k[o], k[len(k) - o - 1]]
        return e
    def lines(self, read_back=False, for_input=False):
        """canonical dump. read_back: what a reader must produce (aux padded, default extents, periods excluded)"""
        L = ["ndim %d" % self.ndim, "order " + " ".join(map(str, self.orders)), "naxes " + " ".join(map(str, self.naxes)),
             "strides " + " ".join(map(str, self.strides)), "nknots " + " ".join(str(len(k)) for k in self.knots)]
        for i, k in enumerate(self.knots):
            L.append("knots %d " % i + " ".join("%016x" % w for w in k))
        L.append("coef " + " ".join("%08x" % w for w in self.coefs))
        ext = self.extents
        if ext is None and read_back:
            ext = self.default_extents()
        L.append("extents none" if ext is None else "extents " + " ".join("%016x" % w for w in ext))
        if not read_back:
            L.append("periods none" if self.periods is None else "periods " + " ".join(hexd(p) for p in self.periods))
        if for_input:
            L.append("periodtok none" if self.periods is None else "periodtok " + " ".join(hx(cfitsio_double(p).encode()) for p in self.periods))
        aux = self.offers if for_input == "offers" else self.aux
        L.append("naux %d" % len(aux))
        for k, v in aux:
            L.append("aux %s %s" % (hx(k), hx(reloaded(v) if read_back else v)))
        L.append("end")
        return L
    def to_json(self):
        return {"orders": self.orders, "knots": [["%016x" % w for w in k] for k in self.knots], "coefs": ["%08x" % w for w in self.coefs],
                "extents": None if self.extents is None else ["%016x" % w for w in self.extents],
                "periods": None if self.periods is None else [hexd(p) for p in self.periods],
                "aux": [[k.hex(), v.hex()] for k, v in self.offers]}
    @staticmethod
    def from_json(j):
        return Case(j["orders"], [[int(h, 16) for h in k] for k in j["knots"]], [int(h, 16) for h in j["coefs"]],
                    None if j["extents"] is None else [int(h, 16) for h in j["extents"]],
                    None if j["periods"] is None else [dfrom(int(h, 16)) for h in j["periods"]],
                    [(bytes.fromhex(k), bytes.fromhex(v)) for k, v in j["aux"]])
    def key(self):
        return hashlib.sha256(json.dumps(self.to_json(), sort_keys=True).encode()).hexdigest()
    def has_special(self):
        return any(((w >> 23) & 0xff) in (0, 0xff) for w in self.coefs)
    def has_nan(self):
        return any(((w >> 23) & 0xff) == 0xff and (w & 0x7fffff) for w in self.coefs) or \
               any(((w >> 52) & 0x7ff) == 0x7ff and (w & ((1 << 52) - 1)) for k in self.knots for w in k)
    def evaluable(self):
        """well-formed for evaluation: naxes >= order+1, knots finite and non-decreasing"""
        for k, o, a in zip(self.knots, self.orders, self.naxes):
            v = [dfrom(w) for w in k]
            if a < o + 1 or any(x != x or x in (math.inf, -math.inf) for x in v) or any(v[i] < v[i - 1] for i in range(1, len(v))):
                return False
        return True
    def describe(self):
        return {"ndim": self.ndim, "orders": self.orders, "naxes": self.naxes, "ncoef": len(self.coefs), "special_coefficients": self.has_special(), "evaluable": self.evaluable(),
                "extents": "none" if self.extents is None else ("default" if self.extents == self.default_extents() else "custom"),
                "periods": self.periods is not None, "naux": len(self.aux), "refused_offers": [k.decode("latin1") for k, _ in self.refused]}

PLAIN = [c for c in range(32, 127) if c != 39]
def fit_encoded(v, budget):
    """longest prefix of v whose encoded length (quotes twice) is within budget"""
    while enc_len(v) > budget:
        v = v[:-1]
    return v
def gen_quoted_value(rng, key, budget, style):
    """a value holding the quote character. budget = largest ENCODED length that fits the card in the standard form. All styles but
    q_overflow stay within it (write_key stores them and wf_table' holds); q_overflow has at most maxdatalen characters but an encoded
    length above write_key's own limit, so that it is the doubling that makes write_key refuse (short keys: > 68; HIERARCH: > 67 - keylen)."""
    plain = lambda n: bytes(rng.choice(PLAIN) for _ in range(n))
    q = b"'"
    if style == "q_single":
        a, b = rng.rint(0, 6), rng.rint(0, 6)
        v = plain(a) + q + plain(b)
    elif style == "q_doubled":
        v = plain(rng.rint(0, 5)) + q + q + plain(rng.rint(0, 5))
    elif style == "q_leading":
        v = q * rng.rint(1, 2) + plain(rng.rint(0, 10))
    elif style == "q_trailing":
        v = plain(rng.rint(0, 10)) + q * rng.rint(1, 2)
    elif style == "q_run3":
        v = plain(rng.rint(0, 4)) + q * rng.rint(3, 5) + plain(rng.rint(0, 4))
    elif style == "q_only":
        v = q * rng.rint(1, max(1, budget // 2))
    elif style == "q_random":
        dens = rng.choice([0.1, 0.3, 0.6])
        v = bytes(39 if rng.chance(dens) else rng.choice(PLAIN) for _ in range(rng.rint(1, budget)))
    elif style == "q_limit":
        # encoded length exactly at the budget, quotes among the last characters (where a truncation or a miscount would bite)
        nq = rng.rint(1, min(4, budget // 2))
        tail = [q] * nq + [plain(1) for _ in range(rng.rint(0, 2))]
        rng.shuffle(tail)
        tail = b"".join(tail)
        if rng.chance(0.5):
            tail = tail + q                        # ends in a quote
        tail = fit_encoded(tail, budget)
        v = plain(budget - enc_len(tail)) + tail
        assert enc_len(v) == budget
        return v
    else:   # q_overflow
        limit = max_data_len(key)                  # write_key's limit on the encoded length
        over = rng.rint(1, 3)
        nq = rng.rint(over, over + 3)              # at least `over` quotes: without doubling the value would be accepted
        body = limit + over - 2 * nq
        if body < 0:
            nq = (limit + over) // 2
            body = limit + over - 2 * nq
        parts = [q] * nq + [plain(1) for _ in range(body)]
        if rng.chance(0.5):
            rng.shuffle(parts)                     # quotes anywhere; else all in front ... or, below, all at the end
        elif rng.chance(0.5):
            parts.reverse()
        v = b"".join(parts)
        assert enc_len(v) == limit + over and len(v) <= limit
        return v
    return fit_encoded(v, budget)

def gen_aux(rng, n):
    aux, seen = [], set()
    alpha = b"ABCDEFGHIJKLMNOPQRSTUVWXYZ0123456789"
    for _ in range(n):
        for _try in range(20):
            if rng.chance(0.75):
                key = bytes(rng.choice(alpha) for _ in range(rng.rint(1, 8)))
            else:
                body = alpha + (b"_-. " if rng.chance(0.5) else b"")
                key = bytes(rng.choice(body) for _ in range(rng.rint(9, 30)))
                key = key.strip(b" ")
                if len(key) < 9 or b"  " in key:
                    continue
            ks = key.decode()
            if ks in seen or ks in AVOID_KEYS or any(ks.startswith(p) for p in RESERVED):
                continue
            break
        else:
            continue
        seen.add(ks)
        # budget for the ENCODED value (every quote twice): what fits on the card in the standard form "HIERARCH key = 'value'"
        maxlen = 68 if len(key) <= 8 else 66 - len(key)
        style = rng.choice(["short", "short", "any", "max", "empty", "blanks", "number",
                            "q_single", "q_doubled", "q_leading", "q_trailing", "q_run3", "q_only", "q_random", "q_limit", "q_overflow"])
        if style.startswith("q_"):
            v = gen_quoted_value(rng, key, maxlen, style)
        elif style == "empty":
            v = b""
        elif style == "number":
            v = str(rng.rint(-10 ** 6, 10 ** 6)).encode() if rng.chance(0.5) else repr(rng.unit() * 1000).encode()
        else:
            ln = {"short": rng.rint(1, 12), "any": rng.rint(0, maxlen), "max": maxlen, "blanks": rng.rint(1, 10)}[style]
            ln = min(ln, maxlen)
            v = bytes(rng.choice(PLAIN) for _ in range(ln))
            if style == "blanks":
                v = b" " * rng.rint(0, 2) + v.strip(b" ")[: max(0, maxlen - 4)] + b" " * rng.rint(0, 2)
            v = v[:maxlen]
        aux.append((key, v))
    # names that collide with cfitsio's keyword conventions but are legal auxiliary keys: the bare name HIERARCH (cfitsio's
    # keyword SEARCH strips a leading HIERARCH and matches the first long-key card), HIERARCHx names, after and before long keys
    if rng.chance(0.25):
        k = rng.choice([b"HIERARCH", b"HIERARCH", b"HIERARCHY", b"HIERARCHX1"])
        if k.decode() not in seen and not (k in (b"HIERARCHY", b"HIERARCHX1") and any(a == k[8:] for a, _ in aux)):
            seen.add(k.decode())
            longs = [i for i, (a, _) in enumerate(aux) if len(a) > 8]
            pos = (rng.rint(longs[0] + 1, len(aux)) if (longs and rng.chance(0.7)) else rng.rint(0, len(aux)))
            aux.insert(pos, (k, bytes(rng.choice(PLAIN) for _ in range(rng.rint(1, 10)))))
    # offers of the HDU-name keywords (to be refused) and of their near misses (to be stored), anywhere in the sequence
    if rng.chance(0.3):
        for _ in range(rng.rint(1, 3)):
            if rng.chance(0.7):
                k = rng.choice(NAME_KEYS)
            else:
                k = rng.choice(NEAR_NAME_KEYS)
                if k.decode() in seen:
                    continue
                seen.add(k.decode())
            aux.insert(rng.rint(0, len(aux)), (k, rng.choice(NAME_VALUES)))
    return aux

def gen_case(rng, tier, big=False):
    maxd = 6 if tier == "quick" else 9
    nd = rng.choice([1, 2, 2, 3, 3, 4, 4, 5, 6] if tier == "quick" else [1, 2, 3, 3, 4, 4, 5, 5, 6, 6, 7, 7])
    if big:
        nd = rng.choice([7, 8, 9])
    pool = {1: 40, 2: 25, 3: 14, 4: 9, 5: 7, 6: 7, 7: 7, 8: 8, 9: 9}[nd]
    while True:
        axes = list(range(1, pool + 1))
        rng.shuffle(axes)
        axes = axes[:nd]                      # pairwise different axis lengths
        n = 1
        for a in axes:
            n *= a
        if n <= (8000 if not big else 400000):
            break
    orders = [rng.rint(0, 5) for _ in range(nd)]
    # well-formed tables only: since the reader validates what it loads (fixes c5fedd9..c025081, property C07) a table
    # with naxes < order+1, or with non-finite / decreasing knots, is refused on read-back — and is not a spline table
    orders = [min(o, a - 1) for o, a in zip(orders, axes)]      # naxes >= order+1, i.e. nknots >= 2*order+2
    knots = []
    for a, o in zip(axes, orders):
        nk = a + o + 1
        style = rng.choice(["uniform", "random", "random", "bits", "extreme", "gulf"])
        if style == "uniform":
            ks = [dbits(float(i) * 0.25 - 1.0) for i in range(nk)]
        elif style == "random":
            x, ks = rng.unit() * 10 - 5, []
            for i in range(nk):
                ks.append(dbits(x)); x += rng.unit() * (0 if rng.chance(0.1) else 1.5)
        elif style == "bits":
            ks = sorted(dbits((rng.unit() - 0.5) * 10 ** rng.rint(-30, 30)) for _ in range(nk))
            ks = [dbits(v) for v in sorted(dfrom(w) for w in ks)]
        elif style == "gulf":
            # finite and increasing, but two NEIGHBOURING knots lie further apart than DBL_MAX (their difference overflows)
            j = rng.rint(1, nk - 1)
            lo = sorted(-(1.0e308 + 7e307 * rng.unit()) for _ in range(j))
            hi = sorted(1.0e308 + 7e307 * rng.unit() for _ in range(nk - j))
            ks = [dbits(v) for v in lo + hi]
        else:
            # extreme but admissible knot values: huge, denormal, signed zeros, repeated — finite and non-decreasing
            pool = [-1.7e308, -1e300, -1.0, -5e-324, -0.0, 0.0, 5e-324, 2.2e-308, 1.0, 1e300, 1.7e308]
            base = sorted([rng.choice(pool) if rng.chance(0.5) else (rng.unit() - 0.5) * 1e3 for _ in range(nk)])
            ks = [dbits(v) for v in base]
        knots.append(ks)
    cstyle = rng.choice(["bits", "bits", "smooth", "special", "mixed"])
    coefs = []
    for i in range(n):
        if cstyle == "bits" or (cstyle == "mixed" and rng.chance(0.5)):
            coefs.append(rng.next() & 0xffffffff)
        elif cstyle == "special" or (cstyle == "mixed" and rng.chance(0.3)):
            coefs.append(rng.choice(SPECIAL32))
        else:
            coefs.append(fbits(to_f32((rng.unit() - 0.5) * 100)))
    c = Case(orders, knots, coefs, None, None, [])
    e = rng.unit()
    if e < 0.35:
        c.extents = c.default_extents()
    elif e < 0.9:
        c.extents = [rng.choice(SPECIAL64) if rng.chance(0.1) else dbits((rng.unit() - 0.5) * 10 ** rng.rint(-5, 5)) for _ in range(2 * nd)]
    if rng.chance(0.35):
        c.periods = [rng.choice([0.0, 0.0, 1.0, 6.283185307179586, 360.0, 0.1, 1e-7, 123456789.125]) for _ in range(nd)]
    c.aux = gen_aux(rng, rng.choice([0, 0, 1, 2, 3, 5, 8, 13, 20]))
    c.offers, c.refused = list(c.aux), []
    return c

# ------------------------------------------------------------------------------------------------
# a third reader, in Python: the documented layout, straight from the bytes (the property's oracle on the library's output)
def py_fits(b):
    hdus, pos = [], 0
    while pos < len(b):
        cards, end = [], False
        while not end:
            blk = b[pos:pos + 2880]
            if len(blk) < 2880:
                raise ValueError("truncated header")
            pos += 2880
            for k in range(36):
                c = blk[k * 80:(k + 1) * 80]
                if c[:8] == b"END     ":
                    end = True
                    break
                cards.append(c)
        kv = []
        for c in cards:
            if c[8:10] == b"= " and not c.startswith(b"HIERARCH"):
                val = c[10:]
                if val.lstrip().startswith(b"'"):
                    s = val.lstrip()[1:]
                    out, i = b"", 0
                    while i < len(s):
                        if s[i:i + 1] == b"'":
                            if s[i + 1:i + 2] == b"'":
                                out += b"'"; i += 2; continue
                            break
                        out += s[i:i + 1]; i += 1
                    kv.append((c[:8].rstrip().decode(), out.rstrip().decode("latin1")))
                else:
                    kv.append((c[:8].rstrip().decode(), val.split(b"/")[0].strip().decode()))
        d = dict(kv)
        bitpix, naxis = int(d["BITPIX"]), int(d["NAXIS"])
        axes = [int(d["NAXIS%d" % j]) for j in range(1, naxis + 1)]
        n = 1
        for a in axes:
            n *= a
        if naxis == 0:
            n = 0
        nbytes = abs(bitpix) // 8 * n
        data = b[pos:pos + nbytes]
        pos += (nbytes + 2879) // 2880 * 2880
        hdus.append({"keys": kv, "dict": d, "bitpix": bitpix, "axes": axes, "data": data})
    return hdus

def layout_oracle(case, b):
    """the documented layout, checked on the bytes the library wrote. Returns list of (signature-suffix, text)."""
    fails = []
    try:
        hd = py_fits(b)
    except Exception as e:
        return [("layout:unparsable", "bytes written by the library are not a FITS file in the documented subset: %r" % e)]
    p = hd[0]
    nd = case.ndim
    if p["bitpix"] != -32:
        fails.append(("layout:coef-bitpix", "coefficient image BITPIX %d, documented -32 (float)" % p["bitpix"]))
    if p["axes"] != [case.naxes[nd - j] for j in range(1, nd + 1)]:
        fails.append(("layout:axis-order", "NAXISj = %s, documented naxes[ndim-j] = %s" % (p["axes"], [case.naxes[nd - j] for j in range(1, nd + 1)])))
    elif p["bitpix"] == -32:
        words = list(struct.unpack(">%dI" % (len(p["data"]) // 4), p["data"]))
        if words != case.coefs:
            k = next((i for i, (a, c) in enumerate(zip(words, case.coefs)) if a != c), min(len(words), len(case.coefs)))
            fails.append(("layout:coef-data", "data word %d of the primary image is not the coefficient at row-major index %d" % (k, k)))
    for i in range(nd):
        if p["dict"].get("ORDER%d" % i) != str(case.orders[i]):
            fails.append(("layout:ORDERn", "ORDER%d = %r, expected %d" % (i, p["dict"].get("ORDER%d" % i), case.orders[i])))
            break
    byname = {}
    for h in hd[1:]:
        byname.setdefault(h["dict"].get("EXTNAME"), h)
    for i in range(nd):
        h = byname.get("KNOTS%d" % i)
        if h is None:
            fails.append(("layout:KNOTSn-missing", "no extension named KNOTS%d" % i)); break
        if h["bitpix"] != -64 or h["dict"].get("XTENSION") != "IMAGE":
            fails.append(("layout:KNOTSn-type", "KNOTS%d is not a double image extension (BITPIX %d)" % (i, h["bitpix"]))); break
        if h["axes"] != [len(case.knots[i])] or list(struct.unpack(">%dQ" % (len(h["data"]) // 8), h["data"])) != case.knots[i]:
            fails.append(("layout:KNOTSn-data", "KNOTS%d extension does not hold the knot vector of dimension %d" % (i, i))); break
    h = byname.get("EXTENTS")
    if case.extents is not None:
        if h is None:
            fails.append(("layout:EXTENTS-missing", "no EXTENTS extension"))
        elif h["bitpix"] != -64 or h["axes"] != [2 * nd] or list(struct.unpack(">%dQ" % (len(h["data"]) // 8), h["data"])) != case.extents:
            fails.append(("layout:EXTENTS-data", "EXTENTS extension is not the double vector lo0 hi0 lo1 hi1 ..."))
    return fails

# ------------------------------------------------------------------------------------------------
def read_dump(path):
    try:
        return [l.rstrip("\n") for l in open(path)]
    except FileNotFoundError:
        return ["MISSING " + os.path.basename(path)]

def strip_periods(lines):
    return [l for l in lines if not l.startswith("period")]

def first_diff(a, b):
    for i in range(max(len(a), len(b))):
        x = a[i] if i < len(a) else "<absent>"
        y = b[i] if i < len(b) else "<absent>"
        if x != y:
            lab = (x.split() or y.split() or ["?"])[0]
            if lab in ("<absent>",):
                lab = (y.split() or ["?"])[0]
            if lab in ("knots",):
                lab = "knots"
            return lab, x[:200], y[:200]
    return None

def run_stack(cmd, timeout=3000):
    return subprocess.run(["bash", "-c", 'ulimit -s unlimited 2>/dev/null || ulimit -s 4000000 2>/dev/null; exec "$0" "$@"'] + cmd,
                          stdout=subprocess.PIPE, stderr=subprocess.PIPE, text=True, timeout=timeout)

def legacy_variant(b, case, kind):
    """byte-level edits of a file the library wrote: 'order' -> single ORDER key (only when all orders are equal),
    'noextents' -> EXTENTS HDU removed. Returns new bytes or None."""
    if kind == "order":
        if len(set(case.orders)) != 1:
            return None
        out = bytearray(b)
        pos, first = 0, True
        while True:
            c = bytes(out[pos:pos + 80])
            if c[:8] == b"END     ":
                break
            if c[:5] == b"ORDER" and c[8:10] == b"= ":
                if first:
                    out[pos:pos + 8] = b"ORDER   "; first = False
                else:
                    out[pos:pos + 80] = (b"COMMENT   legacy file: per-dimension order removed").ljust(80)
            pos += 80
        return bytes(out)
    if kind == "namecard":
        # a foreign file: the primary header carries EXTNAME and HDUNAME cards (as other FITS writers add them) with a name that
        # matches none of the images looked for. The reader must skip the cards (reserved), not load them as auxiliary keys.
        out = bytearray(b)
        pos = 0
        while bytes(out[pos:pos + 8]) != b"END     ":
            pos += 80
        if (pos // 80) % 36 > 33:
            return None                                    # no room for two more cards in this header block
        out[pos:pos + 240] = b"EXTNAME = 'SPLINE  '".ljust(80) + b"HDUNAME = 'PRIMARY '".ljust(80) + b"END".ljust(80)
        return bytes(out)
    if kind == "noextents":
        if case.extents is None:
            return None
        hd_len = 2880 + (2 * case.ndim * 8 + 2879) // 2880 * 2880
        return b[:len(b) - hd_len]
    return None

class Runner:
    def __init__(self, tag):
        self.harness = build_harness("C06_harness", ["C06_harness.cpp"], flavour="faithful")
        self.model = build_extracted("fits")
        self.work = os.path.join(build_dir("C06-work"), tag)
        shutil.rmtree(self.work, ignore_errors=True)
        os.makedirs(self.work)
        self.stats = {"comparisons": 0, "model_reads_of_library_bytes": 0, "library_reads_of_model_bytes": 0, "library_roundtrips": 0,
                      "independent_cfitsio_reads": 0, "layout_oracle_checks": 0, "legacy_files": 0, "identical_backend_outputs": 0, "eval_points_compared": 0}
    def p(self, name):
        return os.path.join(self.work, name)
    def split_offers(self, cases):
        """asks the model which of the offered (key, value) pairs write_key refuses — FitsModel.write_key_offer: reserved name
        (reservedFitsKeyword with the lists translated from the current tree), key longer than 66, or encoded value length (every
        quote counted twice) above maxdatalen: c.aux = the entries the table holds afterwards, c.refused = the others; and what the
        theorem says comes back for each stored value (FitsWf.aux_reloaded), cross-checked against the formula used here"""
        offers = sorted({(k, v) for _, c in cases for k, v in c.offers})
        if not offers:
            return
        open(self.p("k.list"), "w").write("".join("%d %s %s\n" % (i, hx(k), hx(v)) for i, (k, v) in enumerate(offers)))
        pk = run_stack([self.model, "offer", self.p("k.list")])
        res = {}
        for l in pk.stdout.split("\n"):
            w = l.split()
            if len(w) >= 5 and w[-1] == "ok":
                f = dict(x.split("=", 1) for x in w[1:-1])
                res[offers[int(w[0])]] = f
        if pk.returncode != 0 or len(res) != len(offers):
            raise BuildError("model driver failed (offer): %s %s" % (pk.stdout[-300:], pk.stderr[-500:]))
        st = self.stats
        for _, c in cases:
            c.aux = [(k, v) for k, v in c.offers if res[(k, v)]["offer"] == "Stored"]
            c.refused = [(k, v) for k, v in c.offers if res[(k, v)]["offer"] != "Stored"]
            c.refusal_code = {k: ("R" if res[(k, v)]["offer"] == "RefusedReserved" else "O") for k, v in c.refused}
            st["write_key_offers"] = st.get("write_key_offers", 0) + len(c.offers)
            st["write_key_refusals_predicted"] = st.get("write_key_refusals_predicted", 0) + len(c.refused)
            st["write_key_too_long_refusals_predicted"] = st.get("write_key_too_long_refusals_predicted", 0) + \
                sum(1 for k, v in c.refused if res[(k, v)]["offer"] == "RefusedTooLong")
            for k, v in c.aux:
                if b"'" in v:
                    st["stored_values_with_quotes"] = st.get("stored_values_with_quotes", 0) + 1
                if res[(k, v)]["reloaded"] != hx(reloaded(v)):
                    raise BuildError("extracted aux_reloaded %s differs from the check's formula %s for value %s" % (res[(k, v)]["reloaded"], hx(reloaded(v)), hx(v)))
                if res[(k, v)]["entry_ok"] != "1":
                    st["stored_entries_outside_aux_entry_ok"] = st.get("stored_entries_outside_aux_entry_ok", 0) + 1
    def execute(self, cases):
        """cases: list of (id, Case). Returns list of failures: (signature, text, payload)."""
        fails = []
        def fail(cid, case, sig, text, extra=None):
            pl = {"case": case.to_json(), "describe": case.describe(), "check": sig}
            pl.update(extra or {})
            fails.append(("C06:" + sig, text, pl))
        self.split_offers(cases)
        W = []
        for cid, c in cases:
            open(self.p(cid + ".tbl"), "w").write("\n".join(c.lines(for_input=True)) + "\n")           # the table (model writer)
            open(self.p(cid + ".in.tbl"), "w").write("\n".join(c.lines(for_input="offers")) + "\n")     # every offer (write_key)
            W.append("%s %s %s" % (cid, self.p(cid + ".in.tbl"), self.p(cid)))
        open(self.p("w.list"), "w").write("\n".join(W) + "\n")
        pw = sh([self.harness, "w", self.p("w.list")], timeout=3000)
        wstat = {}
        for l in pw.stdout.split("\n"):
            w = l.split()
            if w:
                wstat[w[0]] = l
        # model: decode what the library wrote; encode the table
        D, E, R = [], [], []
        legacy = {}
        for cid, c in cases:
            st = wstat.get(cid, "")
            if not st.endswith(" ok"):
                fail(cid, c, "write:exception", "library failed to build/write/read back the table: %s | %s" % (st[:300], pw.stderr[-300:]))
                continue
            ref = open(self.p(cid + ".file.fits"), "rb").read()
            D.append("%s.file %s %s" % (cid, self.p(cid + ".file.fits"), self.p(cid + ".file.mdl")))
            R.append("%s.real %s %s" % (cid, self.p(cid + ".file.fits"), self.p(cid + ".real")))
            for be in ("mem", "cfile", "cmem"):
                try:
                    other = open(self.p("%s.%s.fits" % (cid, be)), "rb").read()
                except FileNotFoundError:
                    fail(cid, c, "write:%s-missing" % be, "back end %s produced no output (%s)" % (be, st[:200])); continue
                if other == ref:
                    self.stats["identical_backend_outputs"] += 1
                else:
                    D.append("%s.%s %s %s" % (cid, be, self.p("%s.%s.fits" % (cid, be)), self.p("%s.%s.mdl" % (cid, be))))
            for kind in ("order", "noextents", "namecard"):
                lb = legacy_variant(ref, c, kind)
                if lb is not None:
                    open(self.p("%s.leg%s.fits" % (cid, kind)), "wb").write(lb)
                    D.append("%s.leg%s %s %s" % (cid, kind, self.p("%s.leg%s.fits" % (cid, kind)), self.p("%s.leg%s.mdl" % (cid, kind))))
                    R.append("%s.leg%s %s %s" % (cid, kind, self.p("%s.leg%s.fits" % (cid, kind)), self.p("%s.leg%s" % (cid, kind))))
                    legacy[(cid, kind)] = True
            E.append("%s %s %s" % (cid, self.p(cid + ".tbl"), self.p(cid + ".model.fits")))
            R.append("%s.model %s %s" % (cid, self.p(cid + ".model.fits"), self.p(cid + ".model")))
        open(self.p("d.list"), "w").write("\n".join(D) + "\n")
        open(self.p("e.list"), "w").write("\n".join(E) + "\n")
        pd = run_stack([self.model, "decode", self.p("d.list")])
        pe = run_stack([self.model, "encode", self.p("e.list")])
        for l in pe.stdout.split("\n"):
            if " wf_table=" in l:
                # the extracted hypothesis of C06_roundtrip (wf_table'), and the instance of C06_wf_doc on this table
                f = dict(kv.split("=") for kv in l.split()[1:] if "=" in kv)
                st = self.stats
                st["theorem_hypothesis"] = "wf_table' (extracted FitsWf.wf_table', the hypothesis of C06_roundtrip)"
                st["tables_checked_against_theorem_hypotheses"] = st.get("tables_checked_against_theorem_hypotheses", 0) + 1
                if f.get("wf_table'") == "1":
                    st["tables_satisfying_theorem_hypotheses"] = st.get("tables_satisfying_theorem_hypotheses", 0) + 1
                    if f.get("wf_doc") != "1" or f.get("wf_table") != "1":
                        # contradicts the proved theorems C06_wf_doc / wf_table'_wf_table: extraction, driver or build inconsistency
                        cid0 = l.split()[0]
                        c0 = dict(cases).get(cid0)
                        if c0 is not None:
                            fail(cid0, c0, "model:wf_table'-without-wf_doc", "extracted wf_table' holds but wf_table / wf_doc (to_doc t) does not (%s): contradicts C06_wf_doc" % l[:80],
                                 {"broken": "C06_wf_doc"})
                else:
                    st.setdefault("tables_outside_wf_table_prime", []).append(l[:80])
                    if f.get("wf_table") == "1" and f.get("wf_doc") == "1":
                        st["tables_wf_doc_but_not_wf_table_prime"] = st.get("tables_wf_doc_but_not_wf_table_prime", 0) + 1
        if pd.returncode != 0 or pe.returncode != 0:
            raise BuildError("model driver failed: %s %s" % (pd.stderr[-500:], pe.stderr[-500:]))
        open(self.p("r.list"), "w").write("\n".join(R) + "\n")
        pr = sh([self.harness, "r", self.p("r.list")], timeout=3000)
        rstat = {l.split()[0]: l for l in pr.stdout.split("\n") if l.split()}
        unread = set()
        if pr.returncode != 0:
            # the reader process died: blame the file it was reading, skip (do not misattribute) the ones after it
            ids = [l.split()[0] for l in R]
            pending = [i for i in ids if i not in rstat]
            byid = dict(cases)
            if pending:
                cid0 = pending[0].split(".")[0]
                if cid0 in byid:
                    fail(cid0, byid[cid0], "reader-crash:%s" % pending[0].split(".", 1)[1], "the library crashed (exit status %d) while reading %s: %s" % (pr.returncode, pending[0], pr.stderr[-300:]))
                unread = {i.split(".")[0] for i in pending}
            self.stats["reader_process_crashes"] = self.stats.get("reader_process_crashes", 0) + 1
        for cid, c in cases:
            if not wstat.get(cid, "").endswith(" ok"):
                continue
            if cid in unread:
                self.stats["cases_skipped_after_reader_crash"] = self.stats.get("cases_skipped_after_reader_crash", 0) + 1
                continue
            want = c.lines(read_back=True)
            # (0) write_key refused exactly the offers the model refuses, and for the reason the model gives (R: reserved name, O: any
            #     other exception — here: the value, with its quotes doubled, is too long for the card)
            got_ref = [x for x in dict(kv.split("=", 1) for kv in wstat[cid].split()[1:] if "=" in kv).get("refused", "-").split(",") if x != "-"]
            want_ref = [(k.hex() or "-") + ":" + getattr(c, "refusal_code", {}).get(k, "R") for k, _ in c.refused]
            self.stats["comparisons"] += 1
            if got_ref != want_ref:
                names = lambda L: [bytes.fromhex(x.split(":")[0]).decode("latin1") + x[-2:] if x[0] != "-" else x for x in L]
                longq = any(x.endswith(":O") for x in set(got_ref) ^ set(want_ref))
                kind = ("accepted-an-overlong-value" if len(got_ref) < len(want_ref) else "refused-a-storable-value") if longq else \
                       ("accepted-a-reserved-name" if len(got_ref) < len(want_ref) else "refused-a-storable-name")
                fail(cid, c, "write_key:refusal:%s" % kind,
                     "write_key refused %s, the model (write_key_offer: reservedFitsKeyword as translated; encoded length with every quote counted twice against 68 / 67-keylen) refuses %s"
                     % (names(got_ref), names(want_ref)))
                continue
            # harness sanity: the object the library wrote is the case
            od = read_dump(self.p(cid + ".orig"))
            if od != c.lines():
                fail(cid, c, "harness:table-construction", "harness-built object differs from the case: %s" % (first_diff(od, c.lines()),))
                continue
            # (1) model reads the library's bytes
            for be in ("file", "mem", "cfile", "cmem"):
                pth = self.p("%s.%s.mdl" % (cid, be))
                if not os.path.exists(pth):
                    continue
                got = strip_periods(read_dump(pth))
                self.stats["comparisons"] += 1; self.stats["model_reads_of_library_bytes"] += 1
                d = first_diff(got, want)
                if d:
                    fail(cid, c, "write_fits%s->model:%s" % ("" if be == "file" else "[" + be + "]", d[0]),
                         "independent (model) reader of the bytes written by the library (%s back end) does not recover the table: %s: got %s, expected %s" % (be, d[0], d[1], d[2]))
                if strip_periods(read_dump(pth + ".lenient")) != got:
                    fail(cid, c, "model:lenient-vs-strict", "read_bytes and of_bytes differ on a complete file")
            # (5) python layout oracle + independent cfitsio reader on the library's bytes
            b = open(self.p(cid + ".file.fits"), "rb").read()
            self.stats["layout_oracle_checks"] += 1
            for sig, text in layout_oracle(c, b):
                fail(cid, c, sig, "documented layout violated by write_fits: " + text)
            ind = read_dump(self.p(cid + ".real.indep"))
            self.stats["independent_cfitsio_reads"] += 1; self.stats["comparisons"] += 1
            wind = ["ndim %d" % c.ndim, "bitpix -32", "order " + " ".join(map(str, c.orders)), "naxes " + " ".join(map(str, c.naxes)),
                    "coef " + " ".join("%08x" % w for w in c.coefs)] + \
                   ["knots %d bitpix -64 " % i + " ".join("%016x" % w for w in k) for i, k in enumerate(c.knots)] + \
                   ["extents none" if c.extents is None else "extents " + " ".join("%016x" % w for w in c.extents), "end"]
            d = first_diff(ind, wind)
            if d:
                fail(cid, c, "write_fits->cfitsio-reader:%s" % d[0], "independent cfitsio reader (documented layout) does not recover the arrays: got %s, expected %s" % (d[1], d[2]))
            # (3) the library's own round trip
            st = dict(kv.split("=") for kv in wstat[cid].split()[1:] if "=" in kv)
            for be in ("rtfile", "rtmem"):
                got = strip_periods(read_dump(self.p("%s.%s" % (cid, be))))
                self.stats["comparisons"] += 1; self.stats["library_roundtrips"] += 1
                d = first_diff(got, want)
                if d:
                    fail(cid, c, "roundtrip[%s]:%s" % (be, d[0]), "read(write(t)) differs from t: %s: got %s, expected %s" % (d[0], d[1], d[2]))
                exp_eq = "0" if c.has_nan() else "1"     # IEEE: a table holding NaN is not == to itself either
                if st.get(be + "_eq") != exp_eq:
                    fail(cid, c, "roundtrip[%s]:operator==" % be, "operator==(read(write(t)), t) = %s, expected %s" % (st.get(be + "_eq"), exp_eq))
                if st.get(be + "_eval") != ("1" if c.evaluable() else "NA"):
                    fail(cid, c, "roundtrip[%s]:evaluation" % be, "read(write(t)) evaluates differently from t (bitwise) at sample points")
                if st.get(be + "_ret") != "1":
                    fail(cid, c, "roundtrip[%s]:return" % be, "read returned false on the file just written")
                self.stats["eval_points_compared"] += 6 if c.evaluable() else 0
            if st.get("cwrite") != "0" or st.get("cwrite_mem") != "0":
                fail(cid, c, "cwrapper:write-status", "C writer returned non-zero: %s" % wstat[cid][:200])
            # (2) the library reads the model's bytes
            for be in ("rfile", "rmem", "crfile", "crmem"):
                got = read_dump(self.p("%s.model.%s" % (cid, be)))
                per = [l for l in got if l.startswith("periods")]
                got = strip_periods(got)
                self.stats["comparisons"] += 1; self.stats["library_reads_of_model_bytes"] += 1
                d = first_diff(got, want)
                if d:
                    fail(cid, c, "model->%s:%s" % (be, d[0]), "the library reading a file produced by the independent (model) writer does not recover the table: %s: got %s, expected %s" % (d[0], d[1], d[2]))
                elif c.periods is not None:
                    wantp = "periods " + " ".join(hexd(float(cfitsio_double(p))) for p in c.periods)
                    if per != [wantp]:
                        fail(cid, c, "model->%s:periods-text" % be, "PERIODn text written by the model parsed differently: %s vs %s" % (per, wantp))
            # real reader, all four front ends, on the library's own file must agree with each other
            for be in ("rfile", "rmem", "crfile", "crmem"):
                got = strip_periods(read_dump(self.p("%s.real.%s" % (cid, be))))
                self.stats["comparisons"] += 1
                d = first_diff(got, want)
                if d:
                    fail(cid, c, "write_fits->%s:%s" % (be, d[0]), "front end %s on the library's own file: got %s, expected %s" % (be, d[1], d[2]))
            # legacy variants: model and library must agree, and decode as specified
            for kind in ("order", "noextents", "namecard"):
                if (cid, kind) not in legacy:
                    continue
                self.stats["legacy_files"] += 1
                if kind == "namecard":
                    self.stats["foreign_name_card_files"] = self.stats.get("foreign_name_card_files", 0) + 1
                lw = Case(c.orders, c.knots, c.coefs, None if kind == "noextents" else c.extents, c.periods, c.aux).lines(read_back=True)
                m = strip_periods(read_dump(self.p("%s.leg%s.mdl" % (cid, kind))))
                for be in ("rfile", "rmem"):
                    got = strip_periods(read_dump(self.p("%s.leg%s.%s" % (cid, kind, be))))
                    self.stats["comparisons"] += 2
                    d = first_diff(got, lw)
                    if d:
                        fail(cid, c, "legacy[%s]->%s:%s" % (kind, be, d[0]), "legacy file (%s) not read as specified: got %s, expected %s" % (kind, d[1], d[2]))
                    d = first_diff(m, got)
                    if d:
                        fail(cid, c, "legacy[%s]:model-vs-%s:%s" % (kind, be, d[0]), "model and library disagree on a legacy file: model %s, library %s" % (d[1], d[2]))
        return fails

# ------------------------------------------------------------------------------------------------
def shipped_check(runner, out, cov):
    d = os.path.join(REPO, "test", "test_data")
    files = sorted(f for f in os.listdir(d) if f.endswith(".fits"))
    pin_path = os.path.join(VERIF, "corpus", "C06", "shipped.json")
    pins = json.load(open(pin_path)) if os.path.exists(pin_path) else {}
    D, R = [], []
    for f in files:
        D.append("%s %s %s" % (f, os.path.join(d, f), runner.p(f + ".mdl")))
        R.append("%s %s %s" % (f, os.path.join(d, f), runner.p(f + ".ship")))
    open(runner.p("sd.list"), "w").write("\n".join(D) + "\n")
    open(runner.p("sr.list"), "w").write("\n".join(R) + "\n")
    run_stack([runner.model, "decode", runner.p("sd.list")])
    sh([runner.harness, "r", runner.p("sr.list")], timeout=3000)
    seen = {}
    for f in files:
        m = strip_periods(read_dump(runner.p(f + ".mdl")))
        for be in ("rfile", "rmem", "crfile", "crmem"):
            got = strip_periods(read_dump(runner.p(f + ".ship." + be)))
            runner.stats["comparisons"] += 1
            dd = first_diff(m, got)
            if dd:
                out.violation("C06:shipped:%s:%s" % (be, dd[0]), "shipped file %s: model decode and %s differ: model %s, library %s" % (f, be, dd[1], dd[2]),
                              {"file": f, "check": "shipped", "model": dd[1], "impl": dd[2]})
        h = hashlib.sha256("\n".join(m).encode()).hexdigest()
        seen[f] = h
        if f in pins and pins[f] != h:
            out.violation("C06:shipped:content-changed", "shipped file %s no longer decodes to the pinned table" % f, {"file": f, "check": "shipped-pin", "expected": pins[f], "got": h})
    for f in pins:
        if f not in seen:
            out.violation("C06:shipped:missing", "pinned shipped file %s is gone" % f, {"file": f, "check": "shipped-pin"})
    cov["shipped_files"] = len(files)
    cov["shipped_pinned"] = len([f for f in files if f in pins])
    return seen

NAME_KEY_SIGNATURE = "C06:aux-key:EXTNAME-shadows-KNOTSn"
def name_key_probe(runner, out):
    """regression probe for the repaired finding C06:aux-key:EXTNAME-shadows-KNOTSn (D22): an auxiliary key named EXTNAME (or HDUNAME)
    used to be accepted by write_key and written into the primary header; fits_movnam_hdu starts its search at the primary HDU, so
    EXTNAME = 'KNOTSn' / 'EXTENTS' made the reader take the coefficient image for that vector. The minimised cases are kept in
    corpus/C06/D22_*.json (marked "probe"). Here they are run WITHOUT consulting the model: the finding is reported again, under its
    own signature, when write_key stores such a key and the table does not come back. (The same files also run through the general
    comparison, where the model — the translated reserved list — must predict the refusal.)"""
    d = os.path.join(VERIF, "corpus", "C06")
    n = 0
    for f in sorted(os.listdir(d)) if os.path.isdir(d) else []:
        if not f.endswith(".json") or f == "shipped.json":
            continue
        j = json.load(open(os.path.join(d, f)))
        if j.get("probe") != "name-key-shadow":
            continue
        n += 1
        c = Case.from_json(j["case"])
        tag = "nk_" + f[:-5]
        open(runner.p(tag + ".tbl"), "w").write("\n".join(c.lines(for_input="offers")) + "\n")
        open(runner.p(tag + ".list"), "w").write("%s %s %s\n" % (tag, runner.p(tag + ".tbl"), runner.p(tag)))
        pw = sh([runner.harness, "w", runner.p(tag + ".list")], timeout=600)
        st = ([l for l in pw.stdout.split("\n") if l.startswith(tag + " ")] or [""])[0]
        refused = [x.split(":")[0] for x in dict(kv.split("=", 1) for kv in st.split()[1:] if "=" in kv).get("refused", "-").split(",") if x != "-"]
        stored_names = [(k, v) for k, v in c.offers if k in NAME_KEYS and k.hex() not in refused]
        runner.stats["comparisons"] += 1
        if not stored_names:
            runner.stats["name_key_probe_refused"] = runner.stats.get("name_key_probe_refused", 0) + 1
            continue
        c.aux = [(k, v) for k, v in c.offers if k.hex() not in refused]
        want = c.lines(read_back=True)
        bad = None
        if not st.endswith(" ok"):
            bad = ("table", st[len(tag):][:200], "the table read back")
        for be in ("rtfile", "rtmem"):
            bad = bad or first_diff(strip_periods(read_dump(runner.p("%s.%s" % (tag, be)))), want)
        if bad:
            k, v = stored_names[0]
            out.violation(NAME_KEY_SIGNATURE, "REGRESSION of a repaired defect (%s): write_key stored the auxiliary key %s='%s' and read(write(t)) differs from t: %s: got %s, expected %s"
                          % (f, k.decode(), v.decode(), bad[0], bad[1], bad[2]),
                          {"case": c.to_json(), "describe": c.describe(), "check": "aux-key:EXTNAME-shadows-KNOTSn", "corpus": f})
    runner.stats["name_key_probe_cases"] = n

def size_boundary_probe(runner, out, rng, tier):
    """round trips through the library alone (the model is not consulted: a million coefficients take it minutes) of tables whose
    sizes sit on representational boundaries: coefficient counts 2^20 (and 2^20 +- one FITS block of floats in the thorough tier),
    an image that fills whole 2880-byte blocks exactly, one float more, one float less; the property's own statement
    read(write(t)) = t is the oracle, on disk and in memory"""
    shapes = [[1024, 1024], [720], [721], [719], [36, 20], [1440, 3]]
    if tier == "thorough":
        shapes += [[2048, 512], [1024, 1024 + 1], [3, 1024, 1024], [4096, 256, 2]]
    n = 0
    for si, axes in enumerate(shapes):
        nd = len(axes)
        orders = [0 if a > 64 else min(2, a - 1) for a in axes]
        knots = []
        for a, o in zip(axes, orders):
            x = rng.unit() * 4 - 2
            ks = []
            for i in range(a + o + 1):
                ks.append(dbits(x)); x += 0.25 + rng.unit()
            knots.append(ks)
        ntot = 1
        for a in axes:
            ntot *= a
        coefs = [(rng.next() & 0xffffffff) for _ in range(ntot)]
        coefs = [c if (c & 0x7f800000) != 0x7f800000 else c & 0x807fffff for c in coefs]      # finite bit patterns (NaN never compares equal)
        c = Case(orders, knots, coefs, None, None, [(b"SIZEKEY", b"boundary")])
        c.offers, c.refused = list(c.aux), []
        tag = "sz%d" % si
        open(runner.p(tag + ".tbl"), "w").write("\n".join(c.lines(for_input="offers")) + "\n")
        open(runner.p(tag + ".list"), "w").write("%s %s %s\n" % (tag, runner.p(tag + ".tbl"), runner.p(tag)))
        pw = sh([runner.harness, "w", runner.p(tag + ".list")], timeout=1200)
        st = ([l for l in pw.stdout.split("\n") if l.startswith(tag + " ")] or [""])[0]
        want = c.lines(read_back=True)
        runner.stats["comparisons"] += 2
        n += 1
        bad = None
        if not st.endswith(" ok"):
            bad = ("table", (st[len(tag):] + " " + pw.stderr[-200:])[:300], "the table read back")
        for be in ("rtfile", "rtmem"):
            d = first_diff(strip_periods(read_dump(runner.p("%s.%s" % (tag, be)))), want)
            if d and not bad:
                bad = (be + ":" + d[0], d[1], d[2])
        if bad:
            small = Case(orders, knots, coefs[:8], None, None, [])
            out.violation("C06:roundtrip:size-boundary:%s" % bad[0].split(":")[-1],
                          "read(write(t)) differs from t for a table with axes %s (%d coefficients = %d bytes of image data): %s: got %s, expected %s"
                          % (axes, ntot, 4 * ntot, bad[0], bad[1][:120], bad[2][:120]),
                          {"axes": axes, "orders": orders, "ncoefficients": ntot, "check": "size-boundary", "generator": "C06.size_boundary_probe shape %d seed-derived" % si})
        for f in os.listdir(runner.work):
            if f.startswith(tag + "."):
                os.remove(os.path.join(runner.work, f))
    runner.stats["size_boundary_tables"] = n

def load_corpus():
    d = os.path.join(VERIF, "corpus", "C06")
    cases = []
    if os.path.isdir(d):
        for f in sorted(os.listdir(d)):
            if f.endswith(".json") and f != "shipped.json":
                j = json.load(open(os.path.join(d, f)))
                if "case" in j:
                    cases.append(("corpus_" + f[:-5], Case.from_json(j["case"])))
    return cases

def minimise_report(fails, out):
    """one violation per signature, smallest case first"""
    best = {}
    for sig, text, pl in fails:
        size = len(pl["case"]["coefs"]) + 10 * len(pl["case"]["aux"])
        if sig not in best or size < best[sig][0]:
            best[sig] = (size, text, pl)
    for sig, (_, text, pl) in sorted(best.items()):
        out.violation(sig, text, pl)

def run(info, out):
    tier, seed = info["tier"], info["seed"]
    if info.get("replay"):
        p = json.load(open(info["replay"]))
        if "case" not in p:
            print("replay file names a broken obligation or a shipped file, not a generated input: %s" % (p.get("broken") or p.get("file")))
            return {"evaluations": 1, "distinct_nontrivial": 2}
        r = Runner("replay")
        fails = r.execute([("replay", Case.from_json(p["case"]))])
        for sig, text, pl in fails:
            print("replay: %s -> %s" % (sig, text))
            out.violation(sig, text, pl)
        print("replay: %d failing comparisons (of %d)" % (len(fails), r.stats["comparisons"]))
        return {"evaluations": r.stats["comparisons"], "distinct_nontrivial": 2, "rule": "replay of " + info["replay"], "samples": [p.get("describe")]}
    rng = Rng(seed)
    r = Runner("main")
    cov = {}
    fails = []
    corpus = load_corpus()
    if corpus:
        fails += r.execute(corpus)
    shipped_check(r, out, cov)
    name_key_probe(r, out)
    size_boundary_probe(r, out, rng.fork("sizes"), tier)
    n = 300 if tier == "quick" else 3000
    cases = [("g%d" % i, gen_case(rng.fork("case%d" % i), tier)) for i in range(n)]
    if tier == "thorough":
        cases += [("big%d" % i, gen_case(rng.fork("big%d" % i), tier, big=True)) for i in range(12)]
    # execute in chunks to bound disk use
    CH = 250
    for k in range(0, len(cases), CH):
        sub = Runner("main%d" % (k // CH)) if k else r
        if sub is not r:
            sub.stats = r.stats
        fails += sub.execute(cases[k:k + CH])
        if sub is not r:
            shutil.rmtree(sub.work, ignore_errors=True)
    searched = 0
    if (fails or not info["proof_ok"]) and not any(not s.startswith("C06:harness") for s, _, _ in fails):
        # the proof broke but nothing failed: search harder with the same oracle
        rs = Runner("search")
        rs.stats = r.stats
        more = [("s%d" % i, gen_case(rng.fork("search%d" % i), tier)) for i in range(min(10 * n, 3000))]
        fails += rs.execute(more)
        searched = len(more)
        shutil.rmtree(rs.work, ignore_errors=True)
    minimise_report(fails, out)
    distinct = {c.key() for _, c in cases if c.ndim >= 2 or c.has_special() or c.aux}
    dist = {"ndim": {}, "extents": {}, "periods": {"yes": 0, "no": 0}, "naux": {}, "special_coefficients": 0, "orders": {}}
    for _, c in cases:
        dist["ndim"][c.ndim] = dist["ndim"].get(c.ndim, 0) + 1
        e = c.describe()["extents"]
        dist["extents"][e] = dist["extents"].get(e, 0) + 1
        dist["periods"]["yes" if c.periods is not None else "no"] += 1
        b = "0" if not c.aux else ("1-5" if len(c.aux) <= 5 else "6-20")
        dist["naux"][b] = dist["naux"].get(b, 0) + 1
        dist.setdefault("tables_with_refused_name_key_offers", 0)
        dist["tables_with_refused_name_key_offers"] += 1 if any(k in NAME_KEYS for k, _ in c.refused) else 0
        dist.setdefault("tables_with_overlong_quoted_offers_refused", 0)
        dist["tables_with_overlong_quoted_offers_refused"] += 1 if any(k not in NAME_KEYS for k, _ in c.refused) else 0
        dist.setdefault("tables_with_quotes_in_stored_values", 0)
        dist["tables_with_quotes_in_stored_values"] += 1 if any(b"'" in v for _, v in c.aux) else 0
        dist["special_coefficients"] += 1 if c.has_special() else 0
        for o in c.orders:
            dist["orders"][o] = dist["orders"].get(o, 0) + 1
    cov.update({"evaluations": r.stats["comparisons"], "distinct_nontrivial": len(distinct),
                "rule": "random tables: 1..%d dims, pairwise different axis lengths, orders 0..5, coefficient bit patterns incl. NaN (quiet/signalling/payload), +-inf, -0, denormals, "
                        "knots uniform/random/wild/with special values, extents default/custom/absent, periods absent/present, 0..20 auxiliary keys (short and HIERARCH; values incl. empty, blank-padded, maximal length, and — 9 of 16 styles — "
                        "holding quotes: single, doubled, leading, trailing, runs of 3..5, quotes only, random density, encoded length exactly at the card limit with quotes at the end, and offers whose "
                        "length is admissible but whose doubled length is 1..3 above write_key's limit: refused, as write_key_offer predicts), in 30 %% of the tables also 1..3 offers of EXTNAME / HDUNAME (values KNOTSn, EXTENTS, ...: refused, as the model predicts) or of near misses "
                        "(EXTNAMES, HDUVER, ...: stored); every written file also re-read with EXTNAME / HDUNAME cards edited into its primary header; non-trivial = >= 2 dims or special coefficient values or auxiliary keys; distinct by content hash" % (6 if tier == "quick" else 9),
                "samples": [c.describe() for _, c in cases[:3]],
                "traces_validated_against_impl": r.stats["model_reads_of_library_bytes"] + r.stats["library_reads_of_model_bytes"],
                "input_distribution": dist, "counts": r.stats, "generated_tables": len(cases), "corpus_cases": len(corpus),
                "search_volume_after_break": searched, "failing_comparisons": len(fails)})
    return cov
