"""C08 — interrupted or failing writes never pass as success or load as another table.

Model side (extracted WriteModel.v + FitsModel.v): writer as a list of cfitsio calls run against a failure oracle
(run_writer), the write schedule sched t = [(0, cf_bytes t)] with cf_bytes = the exact bytes cfitsio produces, crash states,
the reader read_bytes.  Implementation side: harness/C08_harness.cpp under the LD_PRELOAD shim harness/C08_shim.c, which
records every stdio operation cfitsio's disk driver performs on the output file (with the bytes of every write) and every
cfitsio call photospline makes, and can make any one of either kind fail.

Per table:  (i) recorded positioned writes, adjacent ones merged, == extracted sched t exactly (offsets and bytes); recorded
cfitsio calls == extracted steps (file and memory writer).  (ii) crash enumeration: crash t k materialised from the RECORDED
trace for k at every op boundary, around every block / HDU / card / data-unit boundary and at random interiors; real reader
(checked build) on each; oracle = the property (rejected, or same orders/knots/coefficients); the model's crash t k must be the
same bytes and the model reader must accept whenever the real one does, with the same table.  (iii) fault enumeration:
every single stdio op failing once (ENOSPC), sticky from an op on, RLIMIT_FSIZE (EFBIG, surfacing at flush/close), and every
single cfitsio call failing — through write_fits, writesplinefitstable, write_fits_mem, writesplinefitstable_mem; oracle =
"success reported => complete file on disk, reads back equal" and "whatever is left on disk is rejected or loads equal";
model = run_writer with the oracle that fails the call that failed."""
import os, sys, json, hashlib, shutil, subprocess
from common import *
from common import run as sh
import C06

PROPERTIES_FILE = "Properties_C08"
ASSUMPTIONS = [
    "the theorems are about the Gallina models WriteModel.v (writers as lists of cfitsio calls with their status checks; write schedule; cfitsio's bytes) and FitsModel.v (reader); photospline and cfitsio are tied to them differentially on every run, not verified",
    "failure model of (A): the oracle ranges over the cfitsio calls photospline makes (fits_create_file/memfile, create_img, write_key, update_key, write_pix, close_file); that cfitsio turns a failing stdio operation into a non-zero status of one of these calls is tested by stdio-level fault enumeration, not proved (observed exception: a failing fflush is ignored by cfitsio's ffflsh; the following fclose then writes the data or fails itself)",
    "crash model of (B): a crash leaves the file with the first k bytes of the writer's positioned-write sequence applied, in order (process death / disk full / size limit; no reordering of writes by the OS or the device after a power loss)",
    "the write schedule is cfitsio's buffering policy, modelled as observed (one front-to-back pass over the final bytes once all header keys are written before the image data) and compared with the recorded trace on every run; it is not derived from cfitsio's source",
    "C08_crash_safe takes complete_reads_back t (the model reader recovers orders/knots/coefficients from the complete cfitsio-formatted file) as a decidable hypothesis that the check evaluates on every generated table; for the model's own encoding it is C06's theorem (C08_crash_safe_model)",
    "the model reader is more lenient than cfitsio on files that end inside a data unit's last block or inside an extension it does not need to decode (it accepts where cfitsio reports an error); the comparison requires model-accepts whenever cfitsio accepts, with equal tables",
]
TRUSTED_EXTRA = ["harness/C08_shim.c (LD_PRELOAD interposition of fopen/fwrite/fread/fseeko/fflush/fclose/ftruncate and of ffinit/ffimem/ffcrim/ffpky/ffuky/ffppx/ffclos; trace recording; fault injection)",
                 "harness/C08_harness.cpp, extract/C08_driver.ml, the crash-state materialisation and the oracles in tools/props/C08.py",
                 "cfitsio 4.2.0's buffering policy as an oracle: sched t = [(0, cf_bytes t)] after merging adjacent writes (trace equality checked per table)"]

ENOSPC, EFBIG = 28, 27

class _P:
    pass
def sh_bin(cmd, env=None, timeout=None):
    """like common.run, but cfitsio may echo bytes of a damaged file into its error messages: decode leniently"""
    p = subprocess.run(cmd, env=env, stdout=subprocess.PIPE, stderr=subprocess.PIPE, timeout=timeout)
    r = _P(); r.returncode = p.returncode
    r.stdout = p.stdout.decode("utf-8", "replace"); r.stderr = p.stderr.decode("utf-8", "replace")
    return r

# ------------------------------------------------------------------------------------------------
def mk_case(p):
    """deterministic table from a small parameter dict (kept in replay files and in corpus/C08/*.json)"""
    rng = Rng(p.get("seed", 1))
    axes = p["axes"]; nd = len(axes)
    orders = p.get("orders") or [min(2, a - 1) if a > 1 else 0 for a in axes]
    knots = []
    for a, o in zip(axes, orders):
        x, ks = rng.unit() * 4 - 2, []
        for _ in range(a + o + 1):
            ks.append(dbits(x)); x += 0.25 + rng.unit()
        knots.append(ks)
    n = 1
    for a in axes:
        n *= a
    style = p.get("coef", "bits")
    if style == "bits":
        coefs = [rng.next() & 0xffffffff for _ in range(n)]
    elif style == "cards":       # coefficient data that spells FITS header text (END cards, XTENSION...) at card positions
        text = (b"END" + b" " * 77 + b"XTENSION= 'IMAGE   '" + b" " * 60 + b"SIMPLE  =                    T" + b" " * 50 + b"EXTNAME = 'KNOTS0  '" + b" " * 60) * (n // 80 + 1)
        coefs = [int.from_bytes(text[4 * i:4 * i + 4], "big") for i in range(n)]
    else:
        coefs = [fbits(float(i % 1000) + 0.5) for i in range(n)]
    c = C06.Case(orders, knots, coefs, None, None, [])
    if p.get("ext", True):
        c.extents = c.default_extents() if p.get("ext") != "custom" else [dbits(rng.unit() * 10) for _ in range(2 * nd)]
    if p.get("periods"):
        c.periods = [rng.choice([0.0, 1.0, 6.283185307179586, 360.0]) for _ in range(nd)]
    aux = []
    for i in range(p.get("naux", 0)):
        if i % 7 == 3:
            aux.append((("LONG KEY.NAME-%d" % i).encode(), ("val ue %d" % i).encode()))
        elif i % 7 == 5:
            aux.append((("E%d" % i).encode(), b""))
        else:
            aux.append((("K%d" % i).encode(), bytes(rng.choice(b"abcxyz 0123456789.+-_") for _ in range(rng.rint(1, 40)))))
    c.aux = aux
    return c

QUICK_TABLES = [
    {"axes": [3], "orders": [1], "naux": 1},
    {"axes": [3, 2], "orders": [1, 1], "naux": 3, "periods": True, "ext": "custom"},
    {"axes": [4, 3, 2], "ext": False},
    {"axes": [10, 8], "naux": 40, "coef": "cards"},
    {"axes": [3, 2, 2, 2, 2], "naux": 2, "seed": 3},
    {"axes": [700]},
    {"axes": [12, 10, 9, 8], "naux": 30, "seed": 4},
    {"axes": [200, 150], "coef": "cards"},
    {"axes": [40, 30, 20], "naux": 35, "seed": 6},
    {"axes": [30000], "naux": 40, "seed": 7},          # header grows past one block with > 40 blocks of image data
]
BIG_TABLE = {"axes": [95000], "naux": 0, "seed": 8, "coef": "smooth"}   # ~ 420 blocks

def random_params(rng, tier):
    nd = rng.rint(1, 5)
    target = rng.choice([30, 300, 3000, 12000] if tier == "quick" else [30, 300, 3000, 12000, 40000, 90000])
    axes = []
    rem = target
    for i in range(nd):
        a = max(1, int(round(rem ** (1.0 / (nd - i)))) + rng.rint(-1, 2)) if i < nd - 1 else max(1, rem)
        a = min(a, rem) if rem >= 1 else 1
        axes.append(max(1, a)); rem = max(1, rem // max(1, a))
    rng.shuffle(axes)
    return {"axes": axes, "orders": [min(rng.rint(0, 3), a - 1) for a in axes], "naux": rng.choice([0, 0, 2, 10, 28, 31, 45, 80]),
            "periods": rng.chance(0.3), "ext": rng.choice([True, True, "custom", False]), "coef": rng.choice(["bits", "bits", "cards", "smooth"]),
            "seed": rng.rint(1, 10 ** 6)}

# ------------------------------------------------------------------------------------------------
class Env:
    def __init__(self, tag):
        src = os.path.join(HARNESS, "C08_shim.c")
        key = sha_of_sources([src])
        bd = build_dir("C08-shim-" + key)
        self.shim = os.path.join(bd, "C08_shim.so")
        if not os.path.exists(self.shim):
            p = sh(["gcc", "-shared", "-fPIC", "-O1", "-o", self.shim + ".tmp", src, "-ldl"])
            if p.returncode != 0:
                raise BuildError("shim build failed\n" + p.stderr[-3000:])
            os.rename(self.shim + ".tmp", self.shim)
        self.hw = build_harness("C08_harness", ["C08_harness.cpp"], flavour="faithful")
        self.hr = build_harness("C08_harness", ["C08_harness.cpp"], flavour="checked", tag="C08_harness_checked")
        self.model = build_extracted("C08")
        self.work = os.path.join(build_dir("C08-work"), tag)
        shutil.rmtree(self.work, ignore_errors=True)
        os.makedirs(self.work)
        self.stats = {"tables": 0, "trace_equalities": 0, "step_sequences_compared": 0, "crash_states_real_reader": 0, "crash_states_model": 0,
                      "crash_states_accepted_by_real_reader": 0, "model_more_lenient": 0, "stdio_faults": 0, "rlimit_faults": 0, "api_faults": 0,
                      "left_files_read": 0, "left_files_accepted": 0, "faults_reported_as_failure": 0, "faults_absorbed_file_complete": 0}
        self.n = 0
    def p(self, name):
        return os.path.join(self.work, name)
    def fresh(self, suffix):
        self.n += 1
        return self.p("f%d%s" % (self.n, suffix))
    def write(self, lines):
        """lines: list of dict(id, tbl, out, writer, failop, err, sticky, fsize, log, apifail) -> dict id -> parsed status"""
        lst = self.fresh(".wlist")
        with open(lst, "w") as f:
            for l in lines:
                f.write("%s %s %s %s %d %d %d %d %s %d\n" % (l["id"], l["tbl"], l["out"], l.get("writer", "file"), l.get("failop", -1), l.get("err", ENOSPC),
                                                             l.get("sticky", 0), l.get("fsize", 0), l.get("log", "-"), l.get("apifail", -1)))
        env = dict(os.environ); env["LD_PRELOAD"] = self.shim
        p = sh_bin([self.hw, "w", lst], env=env, timeout=3000)
        res = {}
        for l in p.stdout.split("\n"):
            w = l.split(" ", 6)
            if len(w) >= 6 and w[1].startswith("status="):
                d = {"status": w[1][7:]}
                for kv in w[2:6]:
                    if "=" in kv:
                        k, v = kv.split("=", 1); d[k] = int(v) if v.lstrip("-").isdigit() else v
                d["msg"] = w[6][4:] if len(w) > 6 else ""
                res[w[0]] = d
        return res, p
    def read(self, files):
        """files: list of (id, path) -> dict id -> ("ok", dumplines) | ("err", text)"""
        lst = self.fresh(".rlist")
        with open(lst, "w") as f:
            for i, pth in files:
                f.write("%s %s %s\n" % (i, pth, pth + ".rdump"))
        env = dict(os.environ); env["ASAN_OPTIONS"] = "detect_leaks=0"
        p = sh_bin([self.hr, "r", lst], env=env, timeout=3000)
        res = {}
        for l in p.stdout.split("\n"):
            w = l.split(" ", 2)
            if len(w) >= 2 and w[1].startswith("read="):
                if w[1] == "read=EXC":
                    res[w[0]] = ("err", w[2] if len(w) > 2 else "")
                else:
                    res[w[0]] = ("ok", C06.read_dump(dict(files)[w[0]] + ".rdump"))
        return res, p
    def model_cmds(self, cmds):
        lst = self.fresh(".mlist")
        open(lst, "w").write("\n".join(cmds) + "\n")
        p = C06.run_stack([self.model, lst])
        if p.returncode != 0:
            raise BuildError("model driver failed: " + p.stderr[-600:])
        return {l.split()[0]: l.split()[1:] for l in p.stdout.split("\n") if l.split()}

def parse_log(logp):
    """-> (ops, calls): ops = list of (kind, ...) in time order, writes carry their bytes; calls = [(name, status)]"""
    ops, calls = [], []
    try:
        binb = open(logp + ".bin", "rb").read()
        lines = open(logp).read().split("\n")
    except FileNotFoundError:
        return ops, calls
    bp = 0
    for l in lines:
        w = l.split()
        if not w:
            continue
        if w[0] == "W":
            if w[3] == "FAIL":
                ops.append(("W", int(w[1]), None))
            else:
                n = int(w[3]); ops.append(("W", int(w[1]), binb[bp:bp + n])); bp += n
        elif w[0] == "A":
            calls.append((w[1], int(w[2])))
        elif w[0] in ("S", "F", "C", "T", "R", "O"):
            ops.append(tuple(w))
        elif w[0] == "X":
            # the file's length changed behind the stdio stream's back (preallocation / truncation through another descriptor):
            # entered as a zero-length write AT the new length, so that crash states contain the zero fill and the schedule is
            # no longer "one front-to-back pass"
            if w[3] == "0":
                ops.append(("W", int(w[2]), b""))
            ops.append(("XLEN", w[1], w[2], w[3]))
    return ops, calls

def coalesce(writes):
    out = []
    for off, d in writes:
        if out and out[-1][0] + len(out[-1][1]) == off:
            out[-1] = (out[-1][0], out[-1][1] + d)
        else:
            out.append((off, d))
    return out

def crash_bytes(writes, k):
    f = bytearray()
    for off, d in writes:
        if k <= 0:
            break
        d = d[:k]; k -= len(d)
        if off > len(f):
            f += b"\0" * (off - len(f))
        f[off:off + len(d)] = d
    return bytes(f)

def okc(lines):
    return [l for l in lines if l.split(" ")[0] in ("ndim", "order", "naxes", "strides", "nknots", "knots", "coef")]

def crash_points(writes, final, rng, tier):
    tot = sum(len(d) for _, d in writes)
    nb = len(final) // 2880
    ks = set()
    cum = 0
    bounds = []
    for _, d in writes:
        cum += len(d); bounds.append(cum)
    # header blocks and the end of every data unit, from the final bytes
    hdr_blocks, data_ends = [], []
    try:
        pos = 0
        for h in C06.py_fits(final):
            while True:
                blk = final[pos:pos + 2880]
                ends = [j for j in range(0, 2880, 80) if blk[j:j + 8] == b"END     "]
                hdr_blocks.append(pos); pos += 2880
                if ends:
                    endcard = pos - 2880 + ends[0]
                    break
            data_ends.append((endcard, pos + len(h["data"])))
            pos += (len(h["data"]) + 2879) // 2880 * 2880
    except Exception:
        pass
    small, medium = nb <= 12, nb <= 60
    budget_ops = len(bounds) if medium else (40 if tier == "quick" else 80)
    step = max(1, len(bounds) // budget_ops)
    ks.update(bounds[::step]); ks.update(bounds[-3:])
    for endcard, dend in data_ends:
        ks.update([endcard - 1, endcard, endcard + 2, endcard + 3, endcard + 79, endcard + 80, dend - 1, dend, dend + 1])
    for hb in hdr_blocks:
        ks.update([hb - 1, hb, hb + 1, hb + 80])
        if medium:
            ks.update(range(hb, hb + 2880, 80 if (small or tier != "quick") else 400))
            ks.update(range(hb + 79, hb + 2880, 240 if (small or tier != "quick") else 1200))
    if small:
        ks.update(range(0, tot + 1, 80))
    if medium:
        for b in range(0, tot + 1, 2880):
            ks.update([b - 1, b, b + 1])
    for _ in range(60 if small else 40 if medium else 12):
        ks.add(rng.below(tot + 1))
    return sorted(k for k in ks if 0 <= k < tot), tot

# ------------------------------------------------------------------------------------------------
def check_table(env, params, rng, tier, full=False, light=False):
    """runs (i), (ii), (iii) for one table; returns list of (signature, text, payload).
    light (million-coefficient tables in the quick tier): (i) in full — bytes, one front-to-back pass, cfitsio call sequences —,
    (ii) at a dozen crash points, (iii) single stdio faults at every op in the last stretch of the primary data unit and of the file"""
    fails = []
    c = mk_case(params)
    env.stats["tables"] += 1
    def fail(sig, text, extra=None):
        pl = {"params": params, "describe": c.describe(), "check": sig}
        pl.update(extra or {})
        fails.append(("C08:" + sig, text, pl))
    tbl = env.fresh(".tbl")
    open(tbl, "w").write("\n".join(c.lines(for_input=True)) + "\n")
    want = okc(c.lines(read_back=True))
    # ---- model: bytes, schedule, steps
    mb = env.fresh(".model.fits")
    mtbl = tbl
    if light:
        # the model is consulted on a small table of the same shape class (dimension count, aux keys): its cfitsio call
        # sequence and writer outcome do not depend on the axis lengths; the bytes of the large table are not modelled here
        sp = dict(params); sp["axes"] = [4 + i for i in range(len(params["axes"]))]
        mtbl = env.fresh(".small.tbl")
        open(mtbl, "w").write("\n".join(mk_case(sp).lines(for_input=True)) + "\n")
    m = env.model_cmds(["bytes T %s %s" % (mtbl, mb)])["T"]
    if m[0] == "EXC":
        fail("model:exception", "model driver failed on the table: " + " ".join(m)); return fails
    minfo = dict(kv.split("=", 1) for kv in m)
    final_m = open(mb, "rb").read()
    if minfo["crb"] != "1" or minfo["wf"] != "1":
        fail("model:hypothesis-false", "hypotheses of C08_crash_safe do not hold for this table in the model (complete_reads_back=%s wf_table=%s)" % (minfo["crb"], minfo["wf"]))
    # ---- (i) recorded trace of the real writers
    out0, log0 = env.fresh(".fits"), env.fresh(".log")
    outm, logm = env.fresh(".fits"), env.fresh(".log")
    res, pw = env.write([{"id": "T", "tbl": tbl, "out": out0, "log": log0}, {"id": "M", "tbl": tbl, "out": outm, "writer": "mem", "log": logm}])
    if res.get("T", {}).get("status") != "ok" or res.get("M", {}).get("status") != "ok":
        fail("write:healthy-write-fails", "writer failed without any injected fault: %s | %s" % (res, pw.stderr[-300:])); return fails
    ops, calls = parse_log(log0)
    writes = [(o[1], o[2]) for o in ops if o[0] == "W"]
    final = open(out0, "rb").read()
    co = coalesce(writes)
    env.stats["trace_equalities"] += 1
    sched_equal = True
    if crash_bytes(writes, sum(len(d) for _, d in writes)) != final:
        fail("harness:trace-incomplete", "recorded writes do not reproduce the file on disk"); return fails
    if len(co) != 1 or co[0][0] != 0:
        sched_equal = False
        fail("sched:not-front-to-back", "the writer's positioned writes are not one front-to-back pass over the file (model: sched t = [(0, cf_bytes t)]): %d separate runs, offsets %s; reads of the output file: %d" %
             (len(co), [o for o, _ in co][:12], sum(1 for o in ops if o[0] == "R")), {"runs": [[o, len(d)] for o, d in co][:60]})
    if final != final_m and not light:
        sched_equal = False
        k = next((i for i, (a, b) in enumerate(zip(final, final_m)) if a != b), min(len(final), len(final_m)))
        fail("sched:bytes-differ", "bytes written by cfitsio differ from the model's cf_bytes at offset %d (lengths %d / %d): %r vs %r" % (k, len(final), len(final_m), final[k - k % 80:k - k % 80 + 80], final_m[k - k % 80:k - k % 80 + 80]))
    if open(outm, "rb").read() != final:
        fail("sched:mem-bytes-differ", "write_fits_mem produced different bytes from write_fits")
    env.stats["step_sequences_compared"] += 2
    steps_file, steps_mem = minfo["file"].split(","), minfo["mem"].split(",")
    if [n for n, _ in calls] != steps_file:
        fail("steps:file-writer", "cfitsio calls made by write_fits differ from the model's steps: real %s, model %s" % ([n for n, _ in calls], steps_file))
    _, calls_m = parse_log(logm)
    if [n for n, _ in calls_m] != steps_mem:
        fail("steps:mem-writer", "cfitsio calls made by write_fits_mem differ from the model's steps: real %s, model %s" % ([n for n, _ in calls_m], steps_mem))
    # ---- (ii) crash enumeration on the recorded trace
    ks, tot = crash_points(writes, final, rng, tier)
    if light:
        ks = sorted(set(ks[:: max(1, len(ks) // 10)] + ks[-2:]))
    files = []
    for k in ks:
        f = env.p("crash_%d.fits" % k)
        open(f, "wb").write(crash_bytes(writes, k)); files.append(("k%d" % k, f))
    rres, pr = env.read(files)
    model_budget = (6 if tier == "quick" else 25) * 1000 * 1000       # bytes of crash states pushed through the model reader
    max_mks = 90 if tier == "quick" else 250
    mks, used = [], 0
    order = sorted(ks, key=lambda k: ((k * 2654435761) % 97, k))          # a spread-out, deterministic sample
    for k in order:
        if (used + k + 2880 > model_budget and len(mks) >= 6) or len(mks) >= max_mks:
            break
        mks.append(k); used += k + 2880
    mks = set(mks)
    if light:
        mks = set()
    mcmds = ["crash k%d %s %d %s" % (k, tbl, k, env.p("mcrash_%d.fits" % k)) for k in mks] if sched_equal else []
    mres = env.model_cmds(mcmds) if mcmds else {}
    worst = None
    for k in ks:
        r = rres.get("k%d" % k)
        env.stats["crash_states_real_reader"] += 1
        if r is None:
            fail("crash:reader-crash", "the real reader died on the crash state k=%d (of %d): %s" % (k, tot, pr.stderr[-300:]), {"k": k}); break
        if r[0] == "ok":
            env.stats["crash_states_accepted_by_real_reader"] += 1
            d = C06.first_diff(okc(r[1]), want)
            if d and worst is None:
                worst = (k, d)
        if k in mks and sched_equal:
            env.stats["crash_states_model"] += 1
            mf = env.p("mcrash_%d.fits" % k)
            if mres.get("k%d" % k) != ["ok"] or open(mf, "rb").read() != crash_bytes(writes, k):
                fail("crash:model-state-differs", "model crash t %d is not the file content after the first %d recorded bytes" % (k, k), {"k": k})
            md = C06.read_dump(mf + ".dump")
            m_ok = not md[0].startswith("ERROR")
            if r[0] == "ok" and (not m_ok or okc(md) != okc(r[1])):
                fail("crash:model-reader-disagrees", "crash state k=%d: real reader accepts, model reader %s" % (k, "rejects (%s)" % md[0] if not m_ok else "returns a different table"), {"k": k})
            if m_ok and okc(md) != want:
                fail("crash:model-refuted", "model reader loads crash state k=%d as a different table (contradicts C08_crash_safe)" % k, {"k": k})
            if r[0] == "err" and m_ok:
                env.stats["model_more_lenient"] += 1
            os.remove(mf)
    if worst:
        k, d = worst
        regime = "header-grew-after-data" if not sched_equal else "front-to-back"
        fail("crash:loads-different:" + regime, "the file left after the first %d of %d bytes of the write sequence is ACCEPTED by read_fits as a different table: %s: got %s, expected %s" % (k, tot, d[0], d[1][:80], d[2][:80]),
             {"k": k, "field": d[0]})
    for _, f in files:
        for g in (f, f + ".rdump"):
            if os.path.exists(g):
                os.remove(g)
    # ---- (iii) fault enumeration
    nops = len([o for o in ops if o[0] in ("W", "S", "F", "C", "T")])
    nsteps = len(steps_file)
    runs = []
    idx = list(range(nops)) if (nops <= 60 or full) else sorted(set([0, 1, nops - 3, nops - 2, nops - 1] + [rng.below(nops) for _ in range(30 if tier == "quick" else 60)]))
    if light:
        # every op from shortly before the end of the primary data unit to the end of the file (the knot and extents HDUs are
        # small): this is where a size-dependent flush / close / reposition of a large table would sit
        wpos, first_after = 0, nops
        ext_blocks = sum(2 + (8 * (a + 6)) // 2880 for a in params["axes"]) + 2          # knot HDUs (header + data) and EXTENTS, generously
        dend = max(0, len(final) - 2880 * (ext_blocks + 4))
        n_ = 0
        for o in ops:
            if o[0] in ("W", "S", "F", "C", "T"):
                if o[0] == "W":
                    wpos = int(o[1]) + len(o[2])
                    if wpos >= dend - 8192 and first_after == nops:
                        first_after = n_
                n_ += 1
        idx = sorted(set([0, 1] + list(range(max(0, first_after - 4), nops))))[:140]
    for i in idx:
        runs.append({"kind": "stdio", "failop": i, "writer": "file"})
    for i in idx[:: max(1, len(idx) // 6)] + idx[-2:]:
        runs.append({"kind": "stdio", "failop": i, "writer": "cfile"})
        runs.append({"kind": "stdio", "failop": i, "writer": "file", "sticky": 1})
    for lim in sorted(set([len(final) - 1, len(final) - 2880, len(final) // 2, 2880 + 100, max(1, len(final) - 2880 * 3 - 7)] + [rng.below(len(final)) for _ in range(3)])):
        if lim > 0:
            runs.append({"kind": "rlimit", "fsize": lim, "writer": "file"})
            runs.append({"kind": "rlimit", "fsize": lim, "writer": "cfile"})
    if light:
        runs = [r_ for r_ in runs if r_["kind"] == "stdio" and r_["writer"] == "file" and not r_.get("sticky")]
    sidx = [] if light else list(range(nsteps)) if (nsteps <= 70 or full) else sorted(set([0, 1, 2, nsteps - 1, nsteps - 2, nsteps - 3, nsteps - 4] + [rng.below(nsteps) for _ in range(40)]))
    for j in sidx:
        runs.append({"kind": "api", "apifail": j, "writer": "file"})
    for j in sidx[:: max(1, len(sidx) // 12)] + sidx[-2:]:
        for wname in ("cfile", "mem", "cmem"):
            runs.append({"kind": "api", "apifail": j, "writer": wname})
    lines = []
    for n, r in enumerate(runs):
        r["id"] = "r%d" % n; r["tbl"] = tbl; r["out"] = env.p("fault_%d.fits" % n); r["log"] = env.p("fault_%d.log" % n)
        r["err"] = ENOSPC
        lines.append(r)
    wres, pw = env.write(lines)
    mcmds = []
    for r in runs:
        r["res"] = wres.get(r["id"])
        r["ops"], r["calls"] = parse_log(r["log"])
        bad = [i for i, (_, st) in enumerate(r["calls"]) if st != 0]
        r["failed_call"] = bad[0] if bad else None
        mcmds.append("run %s %s %s new %s" % (r["id"], mtbl, "mem" if r["writer"] in ("mem", "cmem") else "file", "-" if r["failed_call"] is None else str(r["failed_call"])))
    mres = env.model_cmds(mcmds)
    left = [(r["id"], r["out"]) for r in runs if r["writer"] in ("file", "cfile") and os.path.exists(r["out"]) and os.path.getsize(r["out"]) > 0]
    lres, _ = env.read(left) if left else ({}, None)
    seen = set()
    for r in runs:
        what = "op %d of %d failing%s" % (r.get("failop", -1), nops, " (and every later one)" if r.get("sticky") else "") if r["kind"] == "stdio" else \
               "RLIMIT_FSIZE %d (file is %d bytes)" % (r.get("fsize", 0), len(final)) if r["kind"] == "rlimit" else "cfitsio call %d (%s) failing" % (r["apifail"], (steps_file if r["writer"] in ("file", "cfile") else steps_mem)[r["apifail"]])
        env.stats[{"stdio": "stdio_faults", "rlimit": "rlimit_faults", "api": "api_faults"}[r["kind"]]] += 1
        extra = {"fault": {k: r[k] for k in ("kind", "writer", "failop", "sticky", "fsize", "apifail") if k in r}}
        def once(sig, text):
            if sig not in seen:
                seen.add(sig); fail(sig, text, extra)
        if r["res"] is None:
            once("writer-crash:%s" % r["writer"], "%s with %s: the process died (%s)" % (r["writer"], what, pw.stderr[-200:].replace("\n", " "))); break
        ok = r["res"]["status"] == "ok"
        ondisk = open(r["out"], "rb").read() if os.path.exists(r["out"]) else b""
        complete = ondisk == final
        callname = None if r["failed_call"] is None else r["calls"][r["failed_call"]][0]
        if ok:
            if not complete:
                cls = "close" if callname in ("ffclos", None) else callname
                if callname is None and any(o[0] == "F" and o[1] != "0" for o in r["ops"]):
                    cls = "cfitsio-drops-fflush"     # fflush failed (glibc discards the buffered tail), cfitsio's ffflsh ignores it, fclose succeeds
                fa_ops = [o for o in ops if o[0] in ("W", "S", "F", "C", "T")]
                if callname is None and r["kind"] == "stdio" and not r.get("sticky") and 0 <= r.get("failop", -1) < len(fa_ops) and fa_ops[r["failop"]][0] == "S":
                    cls = "cfitsio-ignores-fseek-error"   # a failing fseek: cfitsio's direct-write path for large arrays carries on at the wrong offset and reports nothing
                once("report:%s-error-swallowed:%s" % (cls, r["writer"]), "%s reported SUCCESS with %s, but the file on disk is not the complete file (%d of %d bytes%s)" %
                     (r["writer"], what, len(ondisk), len(final), "" if len(ondisk) != len(final) else ", content differs"))
            else:
                env.stats["faults_absorbed_file_complete"] += 1
        else:
            env.stats["faults_reported_as_failure"] += 1
        # model: the writer fails exactly when a cfitsio call reported an error, at that call
        mo = mres.get(r["id"])
        exp = ["Success"] if r["failed_call"] is None else ["Failed", str(r["failed_call"])]
        if mo != exp:
            once("model:run_writer", "model run_writer gives %s for the oracle failing call %s (expected %s)" % (mo, r["failed_call"], exp))
        if (mo == ["Success"]) != ok and not (ok and not complete):
            once("report:model-vs-writer:%s" % r["writer"], "%s with %s: writer status %s, model %s (first cfitsio call with non-zero status: %s)" % (r["writer"], what, r["res"]["status"], mo, callname))
        if r["kind"] == "api" and r["res"].get("apiinjected") == 1 and ok:
            once("report:%s-error-swallowed:%s" % ("close" if callname == "ffclos" else callname, r["writer"]), "%s reported SUCCESS although %s" % (r["writer"], what))
        if r["kind"] == "api" and r["res"].get("apiinjected") != 1:
            once("steps:injection-missed", "call index %d was never reached by %s" % (r["apifail"], r["writer"]))
        # whatever is left on disk
        lr = lres.get(r["id"])
        if lr is not None:
            env.stats["left_files_read"] += 1
            if lr[0] == "ok":
                env.stats["left_files_accepted"] += 1
                d = C06.first_diff(okc(lr[1]), want)
                if d:
                    once("fault:left-file-loads-different:%s" % r["kind"], "%s with %s (reported %s): the file left on disk is ACCEPTED by read_fits as a different table: %s: got %s, expected %s" %
                         (r["writer"], what, r["res"]["status"], d[0], d[1][:80], d[2][:80]))
        for g in (r["out"], r["out"] + ".rdump", r["log"], r["log"] + ".bin"):
            if os.path.exists(g):
                os.remove(g)
    for g in os.listdir(env.work):      # keep the work directory small
        try:
            os.remove(os.path.join(env.work, g))
        except OSError:
            pass
    return fails

# ------------------------------------------------------------------------------------------------
def load_corpus():
    d = os.path.join(VERIF, "corpus", "C08")
    out = []
    if os.path.isdir(d):
        for f in sorted(os.listdir(d)):
            if f.endswith(".json"):
                j = json.load(open(os.path.join(d, f)))
                if "params" in j:
                    out.append(j["params"])
    return out

def run(info, out):
    tier, seed = info["tier"], info["seed"]
    rng = Rng(seed)
    if info.get("replay"):
        p = json.load(open(info["replay"]))
        if "params" not in p:
            print("replay file names a broken obligation, not a generated input: %s" % p.get("broken"))
            return {"evaluations": 1, "distinct_nontrivial": 2}
        env = Env("replay")
        fails = check_table(env, p["params"], rng.fork("replay"), "thorough", full=True)
        for sig, text, pl in fails:
            print("replay: %s -> %s" % (sig, text)); out.violation(sig, text, pl)
        print("replay: %d failing checks; counts %s" % (len(fails), env.stats))
        return {"evaluations": sum(v for k, v in env.stats.items() if k.endswith("faults") or k.startswith("crash_states_real")), "distinct_nontrivial": 2,
                "rule": "replay of " + info["replay"], "samples": [p.get("describe")]}
    env = Env("main")
    corpus = load_corpus()
    tables = list(corpus) + [t for t in QUICK_TABLES if t not in corpus]
    nrand = 5 if tier == "quick" else 24
    tables.append(BIG_TABLE if tier == "thorough" else {"axes": [60000], "seed": 8, "coef": "smooth"})   # ~ 420 / ~ 270 blocks
    tables += [random_params(rng.fork("t%d" % i), tier) for i in range(nrand)]
    if tier == "thorough":
        tables += [{"axes": [260, 170], "naux": 60, "seed": 11}, {"axes": [30, 20, 12, 6], "naux": 45, "seed": 12, "periods": True},
                   {"axes": [9, 8, 7, 6, 5], "naux": 33, "seed": 13}, {"axes": [50000], "naux": 100, "seed": 14}]
    fails = []
    for n, prm in enumerate(tables):
        fails += check_table(env, prm, rng.fork("table%d" % n), tier)
    # a table at a size boundary (2^20 coefficients): full treatment in the thorough tier, light in the quick tier
    fails += check_table(env, {"axes": [1024, 1024], "seed": 21, "coef": "smooth"}, rng.fork("million"), tier, light=(tier == "quick"))
    searched = 0
    if not info["proof_ok"] and not [f for f in fails if f[0] not in open_signatures("C08")]:      # a reproduced known finding is not a failing input
        for i in range(40):
            fails += check_table(env, random_params(rng.fork("search%d" % i), "thorough"), rng.fork("s%d" % i), tier)
            searched += 1
    best = {}
    for sig, text, pl in fails:
        size = pl["describe"]["ncoef"] + 10 * pl["describe"]["naux"]
        if sig not in best or size < best[sig][0]:
            best[sig] = (size, text, pl)
    for sig, (_, text, pl) in sorted(best.items()):
        out.violation(sig, text, pl)
    shutil.rmtree(env.work, ignore_errors=True)
    descr = [mk_case(p).describe() for p in tables]
    dist = {"ndim": {}, "blocks_of_primary_data": {"1": 0, "2-12": 0, "13-60": 0, ">60": 0}, "naux": {"0": 0, "1-27": 0, ">=28 (header > 1 block)": 0}}
    for d in descr:
        dist["ndim"][d["ndim"]] = dist["ndim"].get(d["ndim"], 0) + 1
        b = (d["ncoef"] * 4 + 2879) // 2880
        dist["blocks_of_primary_data"]["1" if b <= 1 else "2-12" if b <= 12 else "13-60" if b <= 60 else ">60"] += 1
        dist["naux"]["0" if d["naux"] == 0 else "1-27" if d["naux"] < 28 else ">=28 (header > 1 block)"] += 1
    s = env.stats
    ev = s["crash_states_real_reader"] + s["stdio_faults"] + s["rlimit_faults"] + s["api_faults"] + s["trace_equalities"] + s["step_sequences_compared"]
    return {"evaluations": ev, "distinct_nontrivial": len({json.dumps(p, sort_keys=True) for p in tables}),
            "rule": "tables of 1..5 dimensions, 7..~420 FITS blocks, 0..100 auxiliary keys (header of 1..3 blocks), with/without extents and periods, coefficient data random bits / smooth / spelling FITS header cards; "
                    "per table: trace equality, crash states (op boundaries, block/HDU/card/data-unit boundaries +-1, random interiors), single and sticky stdio faults at every op (sampled above 60 ops), RLIMIT_FSIZE at 8 sizes, every cfitsio call failing; every table is non-trivial (distinct by parameters)",
            "samples": descr[:3], "traces_validated_against_impl": s["trace_equalities"] + s["step_sequences_compared"] + s["crash_states_model"],
            "input_distribution": dist, "counts": s, "tables": len(tables), "corpus_cases": len(corpus), "search_volume_after_break": searched,
            "failing_checks": len(fails)}
