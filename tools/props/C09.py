"""C09 — the unconstrained fit minimises the penalised weighted least-squares objective.

Pipeline of one run (DESIGN §4 C09):
  generator -> case file -> (a) real code: harness/C09_harness.cpp (C++ splinetable::fit, C splinetable_glamfit,
  the fitter's C building blocks called directly, the normal system captured at cholesky_solve with the
  linker's --wrap) ; (b) extracted Coq model FitModel.fit_system in exact rationals (GLAM path as the code has
  it) ; (c) this file's own *direct* exact evaluation of the statement's objective (Cox-de Boor values,
  derivative-coefficient recursion; no GLAM, no Coq) and exact solve.
Comparisons:  model == direct, exactly (rationals);  real intermediates vs model to double precision;
  real float coefficients vs exact minimiser with a tolerance scaled by the exact ||A^-1||;  oracle: exact J at
  the returned coefficients vs exact minimum;  permutation / zero-weight padding variants."""
import os, sys, json, time, hashlib, subprocess, shutil, math
from fractions import Fraction as Fr
from multiprocessing import Pool
from common import *
from common import run as sh

PROPERTIES_FILE = "Properties_C09"
TRANSLATORS = ["glam.py"]      # the index arithmetic of glam.c that FitModel transcribes must be present in the recognised form
ASSUMPTIONS = [
    "the linear solve (CHOLMOD analyze/factorize/solve in cholesky_solve) is an oracle: theorems assume `A (solve A r) = r` for symmetric positive definite A; the real solve is only tested (coefficients vs exact minimiser)",
    "CHOLMOD sparse matrices are modelled by the dense matrices they denote (triplet->sparse sums duplicates; ssmult/transpose/add are product/transpose/sum); symmetric-upper storage (stype) is not modelled, its effect is covered by comparing the captured normal matrix with the model",
    "theorems are over an ordered field (exact arithmetic); rounding is not proved: measured every run against exact rationals with the documented tolerances",
    "model FitModel.fit_system tied to the C/C++ by comparison of per-dimension bases, box products, penalty matrices, the F and R arrays after the real slicemultiply, and the normal system captured at cholesky_solve, on this run's cases",
    "well-posedness (positive definite normal matrix) is decided exactly per generated case; ill-posed cases are outside the property and skipped",
    "knot vectors with distinct knots and (about a fifth of the dimensions of order >= 1, since fix 07dbb30) with one run of 2..order+1 repeated knots, interior or clamped at an end, "
    "with the penalty order lowered to order-multiplicity+1 where necessary (beyond that calc_penalty divides by zero: the penalised derivative has no B-spline expansion, not a well-posed problem); "
    "abscissa conventions: the basis of splineutil.c bsplinebasis() since fix F30_1 = the evaluation properties' (right-continuous below knots[nknots-order-1], left-continuous from there upwards)",
]
TRUSTED_EXTRA = [
    "CHOLMOD (cholmod_l_analyze/factorize/solve) as the solver oracle: hypothesis `solve_spec` of Section in Properties_C09.v",
    "extract/fit_driver.ml: Zarith rationals passed as Arith closures for speed; a subset of every run is also executed with the extracted Coq instance QcA and must print identical rationals",
    "tools/props/C09.py: direct exact evaluation of the objective, exact Gauss-Jordan solve and norm computations with Python fractions",
    "GNU ld --wrap=cholesky_solve to observe the normal system of the real fit without changing the library",
]

U53 = Fr(1, 2 ** 53)
U24 = Fr(1, 2 ** 24)

# ------------------------------------------------------------------------------------------------
# builds
@locked_build
def build_model():
    """like common.build_extracted("fit") but links zarith (common.py must not be edited)"""
    gen = os.path.join(EXTRACT, "gen")
    os.makedirs(gen, exist_ok=True)
    exe = os.path.join(gen, "fit_driver")
    coq_build(["Arith", "FitModel"])       # the imported modules, compiled against the current sources
    deps = [os.path.join(EXTRACT, "Extract_fit.v"), os.path.join(EXTRACT, "fit_driver.ml"),
            os.path.join(COQDIR, "theories", "FitModel.vo"), os.path.join(COQDIR, "theories", "Arith.vo")]
    key = sha_of_sources(deps)
    stamp = exe + ".stamp"
    if os.path.exists(exe) and os.path.exists(stamp) and open(stamp).read() == key:
        return exe
    shutil.copy(os.path.join(EXTRACT, "Extract_fit.v"), os.path.join(gen, "Extract_fit.v"))
    p = sh(["coqc", "-Q", os.path.join(COQDIR, "theories"), "PS", "Extract_fit.v"], cwd=gen, timeout=900)
    if p.returncode != 0:
        raise BuildError("extraction failed\n" + (p.stdout + p.stderr)[-4000:])
    shutil.copy(os.path.join(EXTRACT, "fit_driver.ml"), os.path.join(gen, "fit_driver.ml"))
    p = sh(["ocamlfind", "ocamlopt", "-package", "zarith", "-linkpkg", "-O3", "-w", "-a", "fitmodel.mli", "fitmodel.ml", "fit_driver.ml",
             "-o", "fit_driver"], cwd=gen, timeout=900)
    if p.returncode != 0:
        p = sh(["ocamlfind", "ocamlopt", "-package", "zarith", "-linkpkg", "-w", "-a", "fitmodel.mli", "fitmodel.ml", "fit_driver.ml",
                 "-o", "fit_driver"], cwd=gen, timeout=900)
    if p.returncode != 0:
        raise BuildError("ocaml build failed\n" + (p.stdout + p.stderr)[-4000:])
    open(stamp, "w").write(key)
    return exe

def build_impl():
    return build_harness("C09_harness", ["C09_harness.cpp"], flavour="faithful", fitter=True, libs=["-Wl,--wrap=cholesky_solve"])

# ------------------------------------------------------------------------------------------------
# cases.  A case: {"id", "flags", "dims":[{"order","porder","smooth","knots","coords"}], "entries":[[idx...], value, weight], "kind", ...}
# all numbers are Python floats that are exactly the doubles handed to the code.
def case_text(c):
    s = ["case %s %d %d" % (c["id"], len(c["dims"]), c["flags"])]
    for d in c["dims"]:
        s.append("%d %d %s %d %s %d %s" % (d["order"], d["porder"], hexd(d["smooth"]), len(d["knots"]), " ".join(hexd(k) for k in d["knots"]),
                                            len(d["coords"]), " ".join(hexd(x) for x in d["coords"])))
    s.append(str(len(c["entries"])))
    for idx, v, w in c["entries"]:
        s.append("%s %s %s" % (" ".join(str(i) for i in idx), hexd(v), hexd(w)))
    return "\n".join(s) + "\n"

def case_hash(c):
    return hashlib.sha256(case_text(dict(c, id="x")).encode()).hexdigest()[:16]

def nspl_of(d):
    return len(d["knots"]) - d["order"] - 1

def gen_dim(rng, maxspl, maxpts, want_poly):
    order = rng.choice([0, 1, 1, 2, 2, 2, 3, 3])
    porder = rng.rint(1, order) if (want_poly and order >= 1) else rng.rint(0, order)
    nspl = rng.rint(max(order + 1, porder + 1, 2), max(maxspl, order + 1, 2))
    nk = nspl + order + 1
    t = rng.rint(-12, 12) / 4.0
    style = rng.choice(["uniform", "irregular", "irregular", "irregular"])
    step0 = rng.choice([0.5, 1.0, 2.0])
    knots = []
    for i in range(nk):
        knots.append(t)
        t += step0 if style == "uniform" else rng.choice([0.25, 0.5, 0.75, 1.0, 1.25, 2.0, 3.5])
    # repeated knots (routine since fix 07dbb30: splineutil.c's bspline() skips vanishing denominators): about a fifth of the
    # dimensions of order >= 1 get one run of m equal knots (interior or clamped at an end), 2 <= m <= order+1 (m = order+1: the
    # spline may jump there). All draws come from a forked stream so that the other cases of a seed stay what they were.
    mult = 1
    r2 = rng.fork("repeated-knots")
    if order >= 1 and r2.chance(0.2):
        m = r2.rint(2, order + 1)
        where = r2.choice(["interior", "interior", "first", "last"])
        start = 0 if where == "first" else nk - m if where == "last" else r2.rint(1, max(1, nk - m - 1))
        rep = list(knots)
        for q in range(start, min(nk, start + m)):
            rep[q] = knots[start]
        if rep[order] < rep[nspl] and rep[0] < rep[-1]:
            knots, mult = rep, m
    lo, hi = knots[order], knots[nspl]          # fully supported range [lo, hi)
    g = 8 if want_poly else 32                   # abscissae on a 1/g grid (exact doubles)
    pts = []
    # one abscissa inside the support of every basis function (Schoenberg-Whitney), then extras
    for j in range(nspl):
        a, b = max(knots[j], lo), min(knots[j + order + 1], hi)
        na, nb = int(math.ceil(a * g)), int(math.floor(b * g))
        cands = [k / g for k in range(na, nb + 1) if a <= k / g < b and (k / g) not in pts]
        inner = [x for x in cands if x > a] or cands
        if inner:
            pts.append(rng.choice(inner))
    npts = rng.rint(min(len(pts), maxpts), maxpts)
    tries = 0
    while len(pts) < npts and tries < 50:
        tries += 1
        cls = rng.choice(["full", "full", "full", "knot", "margin", "outside", "upper"]) if not want_poly else "full"
        if cls == "full":
            x = rng.rint(int(math.ceil(lo * g)), int(math.floor(hi * g))) / g
            if not (lo <= x < hi):
                continue
        elif cls == "knot":
            x = rng.choice(knots)
        elif cls == "upper":      # exactly on a knot at or above knots[nsplines], the last knot included: where the basis is left-continuous
            x = rng.choice(knots[nspl:] + [knots[-1]])
        elif cls == "margin":
            x = rng.rint(int(knots[0] * g), int(knots[-1] * g)) / g
        else:
            x = rng.choice([knots[0] - 0.5, knots[-1] + 0.25, knots[-1]])
        if x in pts and rng.chance(0.8):
            continue
        pts.append(x)
    pts = pts[:maxpts] if len(pts) > maxpts else pts
    if rng.chance(0.6):
        pts.sort()
    else:
        rng.shuffle(pts)
    smooth = rng.choice([0.0, 0.0, 2.0 ** -10, 1.0, 1.0, 2.0 ** 10])
    d = {"order": order, "porder": porder, "smooth": smooth, "knots": knots, "coords": pts}
    if mult > 1:
        d["mult"] = mult
        if not penalty_defined(d):
            d["porder"] = order - mult + 1        # the highest derivative that still has a B-spline expansion (>= 0 as mult <= order+1)
    return d

def max_mult(knots):
    best = run = 1
    for a, b in zip(knots, knots[1:]):
        run = run + 1 if a == b else 1
        best = max(best, run)
    return best

def penalty_defined(d):
    """the porder-th derivative of a spline of this order has a B-spline expansion (calc_penalty's divided differences have
    non-zero denominators) iff no knot has multiplicity above order-porder+1. Required also where the smoothing is zero and fit
    forms no penalty term, because the check calls calc_penalty directly for every dimension (correspondence of the penalty matrix)."""
    return max_mult(d["knots"]) <= d["order"] - d["porder"] + 1

def exact_bspline(kn, x, i, n, left=False):
    """Cox-de Boor, right-continuous or (left) left-continuous, a term with a vanishing denominator dropped (repeated knots)"""
    if n == 0:
        if left:
            return Fr(1) if kn[i] < x <= kn[i + 1] else Fr(0)
        return Fr(1) if kn[i] <= x < kn[i + 1] else Fr(0)
    r = Fr(0)
    d1 = kn[i + n] - kn[i]
    if d1 != 0:
        b = exact_bspline(kn, x, i, n - 1, left)
        if b:
            r += (x - kn[i]) * b / d1
    d2 = kn[i + n + 1] - kn[i + 1]
    if d2 != 0:
        b = exact_bspline(kn, x, i + 1, n - 1, left)
        if b:
            r += (kn[i + n + 1] - x) * b / d2
    return r

def basis_rows(d):
    """the specification's basis (BSpline.Bfun with BSpline.side_of): right-continuous below knots[nsplines], the upper end of the
    fully supported range, left-continuous from there upwards (the last knot belongs to the last interval)"""
    kn = [Fr(k) for k in d["knots"]]
    n = nspl_of(d)
    return [[exact_bspline(kn, Fr(x), j, d["order"], Fr(x) >= kn[n]) for j in range(n)] for x in d["coords"]]

def gen_case(rng, cid, big=False):
    nd = rng.choice([1, 1, 2, 2, 2, 3, 3])
    kind = rng.choice(["random", "random", "spline", "poly"])
    cap = {1: (6, 8), 2: (6, 8), 3: (4, 5)}[nd] if not big else {1: (6, 8), 2: (6, 8), 3: (6, 8)}[nd]
    dims = [gen_dim(rng, cap[0], cap[1], kind == "poly") for _ in range(nd)]
    if kind == "poly" and any(d["porder"] < 1 for d in dims):
        kind = "random"
    if kind == "spline":
        for d in dims:
            d["smooth"] = 0.0
    flags = 0
    own = [(d["smooth"], d["porder"]) for d in dims]
    if rng.chance(0.3):
        for d in dims:
            d["smooth"] = dims[0]["smooth"]
        flags |= 1
    if rng.chance(0.3) and all(dims[0]["porder"] <= d["order"] and (kind != "poly" or dims[0]["porder"] >= 1) for d in dims):
        for d in dims:
            d["porder"] = dims[0]["porder"]
        flags |= 2
    if not all(penalty_defined(d) for d in dims):
        # a shared smoothing strength / penalty order would penalise a derivative that a repeated knot makes undefined
        # (division by zero in calc_penalty: not a well-posed problem): keep the per-dimension arguments
        for d, (sm, po) in zip(dims, own):
            d["smooth"], d["porder"] = sm, po
        flags = 0
    # keep the padded problem well inside what calc_penalty supports
    for d in dims:
        if nspl_of(d) < d["porder"] + 1:
            d["porder"] = 0
            if kind == "poly":
                kind = "random"
    return fill_data(rng, cid, dims, kind, flags)

def fill_data(rng, cid, dims, kind, flags):
    """data cells, weights and values of a case whose dimensions are fixed (shared by the random and the structured family)"""
    nd = len(dims)
    # data cells
    shape = [len(d["coords"]) for d in dims]
    cells = [[]]
    for n in shape:
        cells = [c + [i] for c in cells for i in range(n)]
    density = rng.choice([1.0, 1.0, 0.85, 0.6])
    aux = {}
    if kind == "spline":
        ncoef = 1
        for d in dims:
            ncoef *= nspl_of(d)
        aux["ctrue"] = [rng.rint(-16, 16) / 4.0 for _ in range(ncoef)]
        rows = [basis_rows(d) for d in dims]
    if kind == "poly":
        aux["poly"] = [[rng.rint(-3, 3) for _ in range(d["porder"])] for d in dims]
        for q in aux["poly"]:
            if all(a == 0 for a in q):
                q[0] = 1
    entries = []
    for c in cells:
        if not rng.chance(density):
            continue
        w = rng.choice([rng.rint(1, 32) / 8.0, 1.0, 2.0 ** rng.rint(-3, 3), rng.rint(1, 64) / 16.0])
        if rng.chance(0.06):
            w = 0.0
        if kind == "random":
            v = rng.rint(-64, 64) / 16.0
        elif kind == "spline":
            vec = [Fr(1)]
            for k, d in enumerate(dims):
                vec = [a * b for a in vec for b in rows[k][c[k]]]
            v = float(sum(a * Fr(b) for a, b in zip(vec, aux["ctrue"]) if a))
        else:
            val = Fr(1)
            for k, d in enumerate(dims):
                x = Fr(d["coords"][c[k]])
                val *= sum(Fr(a) * x ** e for e, a in enumerate(aux["poly"][k]))
            v = float(val)
            if Fr(v) != val:
                kind = "random"
        entries.append([list(c), v, w])
        if rng.chance(0.03):      # the same cell listed twice: two data points at one abscissa
            entries.append([list(c), rng.rint(-64, 64) / 16.0 if kind == "random" else v, rng.rint(1, 16) / 8.0])
    if not entries:
        entries.append([[0] * nd, 1.0, 1.0])
        kind = "random"          # the stand-in value is not spline/polynomial data (with 1-2 cells the density draw can drop them all)
    if rng.chance(0.5):
        rng.shuffle(entries)
    case = {"id": cid, "flags": flags, "dims": dims, "entries": entries, "kind": kind}
    case.update(aux)
    return case

def make_variant(rng, c):
    """same problem: entries permuted, zero-weight entries (arbitrary cell, arbitrary value) inserted"""
    v = json.loads(json.dumps(c))
    v["id"] = c["id"] + "v"
    ents = v["entries"]
    shape = [len(d["coords"]) for d in v["dims"]]
    for _ in range(rng.rint(1, 6)):
        ents.append([[rng.below(n) for n in shape], rng.rint(-1000, 1000) / 8.0, 0.0])
    rng.shuffle(ents)
    v["variant_of"] = c["id"]
    return v

# ------------------------------------------------------------------------------------------------
# the STRUCTURED family (round 3).  The random family above never produced an axis with fewer than max(order+1, 2) basis
# functions, a penalty order equal to the number of basis functions, two identical axes, a data grid of length 1 or very
# unequal axis lengths - classes at which the code and the proofs split cases:
#   * calc_penalty: the difference matrix has nsplines - porder rows: NO row when porder == nsplines (DtD is the n x n ZERO matrix,
#     for one basis function the 1x1 zero matrix), kronecker_product with 1x1 factors (an axis with one basis function), the left
#     fold over the axes (the axis in the first / a middle / the last position);
#   * fit.h: a penalty order above the spline order or the number of basis functions is refused only when the smoothing of that
#     dimension is non-zero (with zero smoothing the order is never looked at);
#   * glamfit_complex: one basis / box product per axis (what if two axes are the same?), slicemultiply's mixed-radix walk with a
#     range of 1 or with very different ranges;
#   * the theorems (C09_glam_is_kron, C09_penalty_is_DtD, C09_fit_system_is_normal_system) have NO hypothesis on nsplines, on the
#     number of abscissae or on the penalty order: the model must agree on all of these.
# A table with fewer than 2*order+2 knots in some dimension (nsplines <= order) has an empty fully supported range: it cannot be
# evaluated by ndsplineeval, but the fit's statement (normal system, minimiser of the objective) does not depend on that and is
# compared as for every other case; only the `poly' kind (which speaks about the fully supported range) is not used there.
def distinct_knots(rng, nk):
    t = rng.rint(-12, 12) / 4.0
    style = rng.choice(["uniform", "irregular", "irregular", "irregular"])
    step0 = rng.choice([0.5, 1.0, 2.0])
    knots = []
    for i in range(nk):
        knots.append(t)
        t += step0 if style == "uniform" else rng.choice([0.25, 0.5, 0.75, 1.0, 1.25, 2.0, 3.5])
    return knots

def pick_coords(rng, knots, order, nspl, npts, g=32, plain=False):
    """npts abscissae (exact doubles on a 1/g grid): first one strictly inside the support of each basis function (as many as fit
    into npts), taken in the fully supported range when that range is not empty, then extras of every class"""
    lo, hi = knots[order], knots[nspl]
    evaluable = lo < hi
    pts = []
    order_j = list(range(nspl))
    rng.shuffle(order_j)
    for j in order_j[:npts]:
        a, b = knots[j], knots[j + order + 1]
        if evaluable:
            a, b = max(a, lo), min(b, hi)
        na, nb = int(math.ceil(a * g)), int(math.floor(b * g))
        cands = [k / g for k in range(na, nb + 1) if a <= k / g < b and (k / g) not in pts]
        inner = [x for x in cands if x > a] or cands
        if inner:
            pts.append(rng.choice(inner))
    tries = 0
    while len(pts) < npts and tries < 60:
        tries += 1
        cls = "inside" if plain else rng.choice(["inside", "inside", "inside", "knot", "outside", "upper"])
        if cls == "inside":
            x = rng.rint(int(math.ceil(knots[0] * g)), int(math.floor(knots[-1] * g))) / g
        elif cls == "knot":
            x = rng.choice(knots)
        elif cls == "upper":
            x = rng.choice(knots[nspl:] + [knots[-1]])
        else:
            x = rng.choice([knots[0] - 0.5, knots[-1] + 0.25])
        if x in pts and rng.chance(0.8):
            continue
        pts.append(x)
    if rng.chance(0.6):
        pts.sort()
    else:
        rng.shuffle(pts)
    return pts

def dim_fixed(rng, order, nspl, porder, smooth, npts, plain=False):
    knots = distinct_knots(rng, nspl + order + 1)
    return {"order": order, "porder": porder, "smooth": smooth, "knots": knots, "coords": pick_coords(rng, knots, order, nspl, npts, plain=plain)}

def filler_dim(rng, maxspl, maxpts):
    """an ordinary small axis next to the special one(s)"""
    order = rng.choice([0, 1, 1, 2, 2, 3])
    nspl = rng.rint(max(order + 1, 2), max(maxspl, order + 1, 2))
    porder = rng.rint(0, order)
    smooth = rng.choice([0.0, 2.0 ** -10, 1.0, 1.0, 2.0 ** 10])
    return dim_fixed(rng, order, nspl, porder, smooth, rng.rint(nspl, max(nspl, maxpts)))

NONZERO_SMOOTH = [2.0 ** -10, 1.0, 1.0, 4.0, 2.0 ** 10]
POSITIONS = [(1, 0), (2, 0), (2, 1), (3, 0), (3, 1), (3, 2)]       # (ndim, position of the special axis)

def struct_plan(rng, tier):
    """the list of structured cases of one run: the small-axis classes are ENUMERATED (every legal (order, penalty order) of an
    axis with one and with two basis functions x zero / non-zero smoothing x every axis position of a 1-, 2- and 3-dimensional fit),
    the other classes are drawn"""
    plan = []
    for nspl in (1, 2):
        for order in (0, 1, 2, 3):
            for porder in range(0, min(order, nspl) + 1):
                for sm in (False, True):
                    for nd, pos in POSITIONS:
                        plan.append({"cls": "small-axis", "nspl": nspl, "order": order, "porder": porder, "smooth_on": sm, "ndim": nd, "pos": pos})
    # a penalty order beyond the legal range (order+1, or nsplines+1) where the smoothing is zero: accepted by fit(), never used
    for nspl in (1, 2, 3):
        for order in (0, 1, 2):
            for nd, pos in POSITIONS[1:]:
                plan.append({"cls": "porder-beyond", "nspl": nspl, "order": order, "porder": rng.choice([order + 1, nspl + 1, max(order, nspl) + 1]), "ndim": nd, "pos": pos})
    reps = 1 if tier == "quick" else 6
    for _ in range(reps):
        for near in (None, None, "knot", "abscissa", "order", "porder-smooth"):
            for nd, pair in ((2, (0, 1)), (3, (0, 1)), (3, (0, 2)), (3, (1, 2))):
                plan.append({"cls": "twin", "near": near, "ndim": nd, "pair": pair})
        for nd, pos in POSITIONS:
            for nspl in (1, 2, 3):
                plan.append({"cls": "single-abscissa", "nspl": nspl, "ndim": nd, "pos": pos})
        for nd, pos in POSITIONS[1:]:
            for short in (1, 2):
                plan.append({"cls": "unequal", "short": short, "ndim": nd, "pos": pos})
    return plan

def gen_case_struct(rng, cid, desc):
    nd = desc["ndim"]
    cap = {1: (5, 6), 2: (4, 5), 3: (3, 4)}[nd]
    dims = [filler_dim(rng, cap[0], cap[1]) for _ in range(nd)]
    kind = rng.choice(["random", "random", "spline"])
    cls = desc["cls"]
    if cls == "small-axis":
        nspl, order, porder = desc["nspl"], desc["order"], desc["porder"]
        sm = rng.choice(NONZERO_SMOOTH) if desc["smooth_on"] else 0.0
        dims[desc["pos"]] = dim_fixed(rng, order, nspl, porder, sm, rng.choice([1, nspl, nspl + 1, nspl + 3]))
        if desc["smooth_on"] and porder != nspl:
            kind = "random"            # (the `spline' kind would zero the smoothing this class is about)
    elif cls == "porder-beyond":
        dims[desc["pos"]] = dim_fixed(rng, desc["order"], desc["nspl"], desc["porder"], 0.0, rng.rint(desc["nspl"], desc["nspl"] + 2))
    elif cls == "twin":
        i, j = desc["pair"]
        order = rng.choice([0, 1, 2, 3])
        nspl = rng.rint(1, 4 if nd == 2 else 3)
        a = dim_fixed(rng, order, nspl, rng.rint(0, min(order, nspl)), rng.choice([0.0, 1.0, 2.0 ** -10, 4.0]), rng.rint(nspl, nspl + 2))
        b = json.loads(json.dumps(a))
        near = desc["near"]
        if near == "knot":
            kn = b["knots"]
            q = rng.below(len(kn))
            lo = kn[q - 1] if q > 0 else kn[q] - 1.0
            hi = kn[q + 1] if q + 1 < len(kn) else kn[q] + 1.0
            kn[q] = rng.choice([(lo + kn[q]) / 2, (kn[q] + hi) / 2, nextafter(kn[q], hi)])      # still sorted and distinct
        elif near == "abscissa":
            q = rng.below(len(b["coords"]))
            b["coords"][q] = rng.choice([nextafter(b["coords"][q], b["knots"][-1] + 1.0), b["coords"][q] + 1.0 / 64])
        elif near == "order" and order >= 1:
            # same knots and grid, order one lower (one more basis function)
            b["order"] = order - 1
            b["porder"] = min(b["porder"], b["order"])
        elif near == "porder-smooth":
            b["porder"] = rng.rint(0, min(order, nspl))
            b["smooth"] = rng.choice([0.0, 1.0, 2.0 ** 10])
        dims[i], dims[j] = a, b
    elif cls == "single-abscissa":
        nspl = desc["nspl"]
        order = rng.choice([0, 1, 2, 3])
        porder = rng.rint(0, min(order, 1))
        sm = rng.choice(NONZERO_SMOOTH) if nspl > 1 else rng.choice([0.0] + NONZERO_SMOOTH)
        dims[desc["pos"]] = dim_fixed(rng, order, nspl, porder, sm, 1, plain=True)
    elif cls == "unequal":
        # one long axis, the others with `short' basis functions (1 or 2)
        order = rng.choice([1, 2, 3])
        nlong = rng.rint(10, 16) if nd == 2 else rng.rint(8, 12)
        for k in range(nd):
            o = rng.choice([0, 1, 2])
            po = rng.rint(0, min(o, desc["short"]))
            dims[k] = dim_fixed(rng, o, desc["short"], po, rng.choice([0.0, 1.0, 2.0 ** -10]), rng.rint(1, 3))
        dims[desc["pos"]] = dim_fixed(rng, order, nlong, rng.rint(0, order), rng.choice([0.0, 2.0 ** -10, 1.0]), nlong + rng.rint(0, 4), plain=True)
    if kind == "spline":
        # data generated from a spline on the same knots are reproduced when there is no penalty: smoothing is zeroed, except
        # on an axis whose penalty order equals its number of basis functions - there the penalty is identically zero
        for d in dims:
            if not (d["porder"] == nspl_of(d) and d["porder"] <= d["order"]):
                d["smooth"] = 0.0
    flags = 0
    if len(set(d["smooth"] for d in dims)) == 1 and rng.chance(0.4):
        flags |= 1
    if len(set(d["porder"] for d in dims)) == 1 and rng.chance(0.4):
        flags |= 2
    c = fill_data(rng, cid, dims, kind, flags)
    c["family"] = cls
    return c

def penalty_callable(d):
    """calc_penalty can be called for this dimension (the harness and the model driver call it directly to compare the matrices):
    beyond these limits divided_diffs writes outside its scratch arrays / the row count nsplines - porder wraps around, and fit()
    reaches calc_penalty only within them (it refuses the arguments when the smoothing is non-zero, skips the term when it is zero)"""
    return d["porder"] <= d["order"] and d["porder"] <= nspl_of(d)

def axis_classes(c):
    """the structural classes a case falls into, MEASURED on the case (not taken from the plan): for the coverage histogram"""
    dims = c["dims"]
    nd = len(dims)
    out = []
    ns = [nspl_of(d) for d in dims]
    for k, d in enumerate(dims):
        pos = "only" if nd == 1 else "first" if k == 0 else "last" if k == nd - 1 else "middle"
        n = ns[k]
        if n <= 2:
            out.append("axis with %d basis function%s, %s position, penalty order %d%s, %s smoothing" % (
                n, "" if n == 1 else "s", pos, d["porder"], " (= nsplines: difference matrix without rows)" if d["porder"] == n else "",
                "non-zero" if d["smooth"] != 0.0 else "zero"))
        if d["porder"] == n and d["smooth"] != 0.0:
            out.append("penalty order = nsplines with non-zero smoothing (zero penalty term), %s position" % pos)
        if not penalty_callable(d):
            out.append("penalty order beyond order/nsplines with zero smoothing (never used by fit)")
        if len(d["coords"]) == 1:
            out.append("data grid of length 1, %s position, %d basis function%s" % (pos, n, "" if n == 1 else "s"))
        if len(d["knots"]) < 2 * d["order"] + 2:
            out.append("axis with fewer than 2*order+2 knots (empty fully supported range: table not evaluable, fit statement compared)")
    for i in range(nd):
        for j in range(i + 1, nd):
            a, b = dims[i], dims[j]
            same = [a["order"] == b["order"], a["knots"] == b["knots"], a["coords"] == b["coords"]]
            if all(same):
                out.append("twin axes (same order, knots, abscissae) %d,%d of %d%s" % (i, j, nd, "" if (a["porder"], a["smooth"]) == (b["porder"], b["smooth"]) else ", penalty differs"))
            elif len(a["knots"]) == len(b["knots"]) and len(a["coords"]) == len(b["coords"]) and a["order"] == b["order"] and \
                    sum(x != y for x, y in zip(a["knots"], b["knots"])) + sum(x != y for x, y in zip(a["coords"], b["coords"])) == 1:
                out.append("near-twin axes (one %s differs) %d,%d of %d" % ("knot" if a["knots"] != b["knots"] else "abscissa", i, j, nd))
            elif a["knots"] == b["knots"] and a["coords"] == b["coords"]:
                out.append("near-twin axes (same knots and abscissae, order differs) %d,%d of %d" % (i, j, nd))
    if nd >= 2 and max(ns) >= 5 * max(1, min(ns)):
        out.append("very unequal axis lengths (max/min nsplines >= 5)")
    return out

# ------------------------------------------------------------------------------------------------
# running both sides
def parse_blocks(text):
    res, cur = {}, None
    for line in text.split("\n"):
        tk = line.split()
        if not tk:
            continue
        if tk[0] == "case":
            cur = {}
            res[tk[1]] = cur
        elif tk[0] == "end":
            cur["_complete"] = True
            cur = None
        elif cur is not None:
            cur[tk[0]] = tk[1:]
    return res

def run_impl_cases(exe, cases):
    """one harness process per chunk; a crash is attributed to the first case without an `end' line"""
    out = {}
    pending = list(cases)
    crashes = []
    while pending:
        text = "".join(case_text(c) for c in pending)
        p = subprocess.run([exe], input=text, stdout=subprocess.PIPE, stderr=subprocess.PIPE, text=True, timeout=3600)
        blocks = parse_blocks(p.stdout)
        done = [cid for cid, b in blocks.items() if b.get("_complete")]
        out.update({cid: blocks[cid] for cid in done})
        if p.returncode == 0 and len(done) == len(pending):
            break
        # crashed (or stopped) in the first incomplete case
        rest = [c for c in pending if c["id"] not in out]
        if not rest:
            break
        bad = rest[0]
        crashes.append((bad["id"], "exit=%s %s" % (p.returncode, p.stderr[-1500:])))
        out[bad["id"]] = dict(blocks.get(bad["id"], {}), _crashed="exit=%s %s" % (p.returncode, p.stderr[-600:]))
        pending = rest[1:]
    return out, crashes

def _run_model_chunk(args):
    exe, mode, text = args
    p = subprocess.run([exe, mode], input=text, stdout=subprocess.PIPE, stderr=subprocess.PIPE, text=True, timeout=3600)
    if p.returncode != 0:
        return {"_error": p.stderr[-2000:]}
    return parse_blocks(p.stdout)

def run_model_cases(exe, cases, mode="zq", pool=None):
    chunks = [cases[i::NCPU] for i in range(NCPU)]
    chunks = [ch for ch in chunks if ch]
    args = [(exe, mode, "".join(case_text(c) for c in ch)) for ch in chunks]
    res = pool.map(_run_model_chunk, args) if pool else [_run_model_chunk(a) for a in args]
    out = {}
    for r in res:
        if "_error" in r:
            raise BuildError("model driver failed: " + r["_error"])
        out.update(r)
    return out

# ------------------------------------------------------------------------------------------------
# the statement, directly and exactly
def deriv_coef_matrix(d):
    """rows: the B-spline coefficients of the porder-th derivative as linear forms in the coefficients
    (de Boor: d^p_j = (n-p+1) (d^{p-1}_j - d^{p-1}_{j-1}) / (t_{j+n-p+1} - t_j)), written independently of
    glam.c's divided_diffs"""
    n, p, N = d["order"], d["porder"], nspl_of(d)
    t = [Fr(k) for k in d["knots"]]
    rows = [[Fr(1) if i == j else Fr(0) for i in range(N)] for j in range(N)]     # level 0: d^0_j = c_j, j = 0..N-1
    first = 0
    for lev in range(1, p + 1):
        new = []
        for j in range(first + 1, N):
            den = t[j + n - lev + 1] - t[j]
            a, b = rows[j - first], rows[j - 1 - first]
            new.append([(n - lev + 1) * (x - y) / den for x, y in zip(a, b)])
        rows = new
        first += 1
    return rows

def direct_system(c):
    """A = sum_e w_e b_e b_e^T + sum_d lambda_d sum_rows p p^T ; r = sum_e w_e z_e b_e ; plus the rows for J"""
    dims = c["dims"]
    nd = len(dims)
    ns = [nspl_of(d) for d in dims]
    n = 1
    for k in ns:
        n *= k
    strides = [1] * nd
    for k in range(nd - 2, -1, -1):
        strides[k] = strides[k + 1] * ns[k + 1]
    B = [basis_rows(d) for d in dims]
    sparse_rows = []          # per entry: list of (flat coefficient index, value)
    for idx, v, w in c["entries"]:
        vec = [(0, Fr(1))]
        for k in range(nd):
            row = B[k][idx[k]]
            vec = [(p + j * strides[k], a * row[j]) for p, a in vec for j in range(ns[k]) if row[j]]
        sparse_rows.append((Fr(w), vec, Fr(v)))
    A = [[Fr(0)] * n for _ in range(n)]
    r = [Fr(0)] * n
    for w, vec, z in sparse_rows:
        if w == 0:
            continue
        for p, a in vec:
            r[p] += w * z * a
            wa = w * a
            Ap = A[p]
            for q, b in vec:
                Ap[q] += wa * b
    pen_rows = []             # (lambda, sparse row)
    for k, d in enumerate(dims):
        lam = Fr(d["smooth"])
        if lam == 0:
            continue
        D = deriv_coef_matrix(d)
        others = [[]]
        for kk in range(nd):
            if kk != k:
                others = [o + [i] for o in others for i in range(ns[kk])]
        for o in others:
            base = 0
            it = iter(o)
            for kk in range(nd):
                if kk != k:
                    base += next(it) * strides[kk]
            for drow in D:
                vec = [(base + j * strides[k], a) for j, a in enumerate(drow) if a]
                pen_rows.append((lam, vec))
                for p, a in vec:
                    la = lam * a
                    Ap = A[p]
                    for q, b in vec:
                        Ap[q] += la * b
    return A, r, sparse_rows, pen_rows

def J_direct(sparse_rows, pen_rows, cvec):
    J = Fr(0)
    for w, vec, z in sparse_rows:
        if w:
            res = z - sum(a * cvec[p] for p, a in vec)
            J += w * res * res
    for lam, vec in pen_rows:
        s = sum(a * cvec[p] for p, a in vec)
        J += lam * s * s
    return J

def float_inverse(Af):
    """Gauss-Jordan with partial pivoting in double precision; None when a pivot vanishes"""
    n = len(Af)
    M = [list(Af[i]) + [1.0 if i == j else 0.0 for j in range(n)] for i in range(n)]
    for k in range(n):
        p = max(range(k, n), key=lambda i: abs(M[i][k]))
        if M[p][k] == 0.0 or M[p][k] != M[p][k]:
            return None
        M[k], M[p] = M[p], M[k]
        piv = M[k][k]
        Mk = [x / piv for x in M[k]]
        M[k] = Mk
        for i in range(n):
            if i != k:
                f = M[i][k]
                if f != 0.0:
                    M[i] = [a - f * b for a, b in zip(M[i], Mk)]
    X = [row[n:] for row in M]
    if any(x != x or x in (math.inf, -math.inf) for row in X for x in row):
        return None
    return X

def solve_certified(A, r):
    """The exact normal matrix A is symmetric positive SEMI-definite by construction (sum of w b b^T and lambda p p^T with
    w, lambda >= 0), so it is positive definite iff it is nonsingular.  With a double-precision approximate inverse X:
      delta = ||I - A X||_inf computed EXACTLY;  delta <= 1/2  certifies nonsingularity and  ||A^-1||_inf <= ||X||_inf / (1 - delta).
    The minimiser is then obtained by iterative refinement with exact residuals: returns (c, eps, ninv, None) with
    ||c - c*||_inf <= eps rigorously (eps ~ 1e-60 relative).  (None, None, None, reason) when not certified: the matrix is
    singular or its condition number is beyond double precision (outside the property: not well-posed)."""
    n = len(A)
    try:
        Af = [[float(x) for x in row] for row in A]
    except OverflowError:
        return None, None, None, "overflow"
    X = float_inverse(Af)
    if X is None:
        return None, None, None, "singular in double precision"
    # exact delta with integer arithmetic: A = Ai / L, X = Xi / 2^s
    L = 1
    for row in A:
        for x in row:
            L = L * x.denominator // math.gcd(L, x.denominator)
    Ai = [[int(x * L) for x in row] for row in A]
    xmax = max(abs(x) for row in X for x in row)
    if xmax == 0.0:
        return None, None, None, "zero inverse"
    s = 60 - math.frexp(xmax)[1] + 53
    s = max(s, 0)
    Xi = [[int(Fr(x) * (1 << s)) if abs(x) * 2.0 ** s >= 1 else 0 for x in row] for row in X]   # truncation: Xi/2^s is just another approximate inverse
    Xc = [list(col) for col in zip(*Xi)]
    den = L << s
    delta = Fr(0)
    for i in range(n):
        rs = 0
        Ai_i = Ai[i]
        for j in range(n):
            v = sum(a * b for a, b in zip(Ai_i, Xc[j]))
            rs += abs((den if i == j else 0) - v)
        delta = max(delta, Fr(rs, den))
    if delta > Fr(1, 2):
        return None, None, None, "not certified: ||I - A X|| = %.3g (singular or condition beyond double precision)" % float(delta)
    normX = max(Fr(sum(abs(x) for x in row), 1 << s) for row in Xi)
    ninv = normX / (1 - delta)
    Xf = [[x / 2.0 ** s for x in row] for row in Xi]
    c = [Fr(0)] * n
    eps = None
    for it in range(12):
        rho = [r[i] - sum(a * b for a, b in zip(A[i], c) if b) for i in range(n)]
        rmax = max(abs(x) for x in rho)
        eps = ninv * rmax
        cm = max([abs(x) for x in c] + [Fr(0)])
        if rmax == 0 or (cm > 0 and eps <= cm * Fr(1, 2 ** 200)):
            break
        # scale the residual into double range, correct in double precision, add exactly
        e = 0
        if rmax > 0:
            e = (rmax.numerator.bit_length() - rmax.denominator.bit_length())
        sc = Fr(2) ** (-e)
        rf = [float(x * sc) for x in rho]
        dc = [sum(a * b for a, b in zip(Xf[i], rf)) for i in range(n)]
        c = [ci + Fr(d) / sc for ci, d in zip(c, dc)]
    return c, eps, ninv, None

def fr_of_hex(h):
    return Fr(dfrom(int(h, 16)))
def fr_of_hexf(h):
    return Fr(ffrom(int(h, 16)))

def arr_to_dict(tokens, conv):
    """Farr/Rarr line -> (ranges, {index tuple: summed value})"""
    nd = int(tokens[0])
    ranges = [int(x) for x in tokens[1:1 + nd]]
    cnt = int(tokens[1 + nd])
    d = {}
    p = 2 + nd
    for _ in range(cnt):
        idx = tuple(int(x) for x in tokens[p:p + nd])
        d[idx] = d.get(idx, Fr(0)) + conv(tokens[p + nd])
        p += nd + 1
    return ranges, d

def analyse(args):
    """analyse_inner, but a non-finite number in the implementation's output (which the exact arithmetic cannot convert)
    is a finding about that case, not a crash of the check"""
    try:
        return analyse_inner(args)
    except (ValueError, OverflowError, ZeroDivisionError) as e:
        c = args[0]
        return {"id": c["id"], "status": "non-finite", "fails": [("C09:impl:non-finite-output", "the implementation's output for this case contains a NaN or infinity (%s)" % e, {})]}

def analyse_inner(args):
    """everything exact about one case; returns a dict with `fails' = list of (signature, what, detail)"""
    c, iout, mout, ref = args
    fails = []
    info = {"id": c["id"], "fails": fails, "status": "ok"}
    def fail(sig, what, **detail):
        fails.append((sig, what, detail))
    if mout is None or not mout.get("_complete"):
        fail("C09:model:no-output", "the extracted model produced no output for the case")
        return info
    if mout.get("divzero", ["0"])[0] != "0":
        info["status"] = "division-by-zero-in-model"
        return info
    nd = len(c["dims"])
    mA = [Fr(x) for x in mout["A"][2:]]
    n = int(mout["A"][0])
    mA = [mA[i * n:(i + 1) * n] for i in range(n)]
    mr = [Fr(x) for x in mout["r"][1:]]
    info["n"] = n
    # (1) model (GLAM path, Coq) == direct definition (Python), exactly
    A, r, srows, prows = direct_system(c)
    if len(A) != n:
        fail("C09:model-vs-direct:shape", "model system has size %d, direct definition %d" % (n, len(A)))
        return info
    if mA != A:
        bad = [(i, j) for i in range(n) for j in range(n) if mA[i][j] != A[i][j]][:3]
        fail("C09:model-vs-direct:A", "normal matrix of the model's GLAM path differs from the directly assembled one", first=[(i, j, str(mA[i][j]), str(A[i][j])) for i, j in bad])
    if mr != r:
        fail("C09:model-vs-direct:r", "right-hand side of the model's GLAM path differs from the directly assembled one")
    if ref is not None:
        # variant: the exact system must be IDENTICAL to the base case's (order / zero-weight irrelevance, exact)
        if ref.get("A_hash") is not None and ref["A_hash"] != hashlib.sha256(repr((mA, mr)).encode()).hexdigest():
            fail("C09:model:variant-system", "permuting the entries / adding zero-weight entries changed the exact normal system of the model")
    info["A_hash"] = hashlib.sha256(repr((mA, mr)).encode()).hexdigest()
    # (2) well-posedness, exact minimiser, exact norms
    cstar, ceps, normAinv, why = solve_certified(A, r)
    if cstar is None:
        info["status"] = "ill-posed"
        info["why"] = why
        return info
    normA = max(sum(abs(x) for x in row) for row in A)
    cmax = max(abs(x) for x in cstar)
    rmax = max(abs(x) for x in r)
    Ksolve = 32 * (n + 8)
    tol_solve = Ksolve * U53 * normAinv * (normA * cmax + rmax)
    tol = [U24 * abs(x) + tol_solve + ceps + Fr(1, 2 ** 140) for x in cstar]
    Jslack = n * normA * ceps * ceps          # J(c~) - J(c*) <= this, c~ the certified approximation of the minimiser
    info["cond"] = float(normA * normAinv)
    info["tol_rel"] = float(max(tol) / cmax) if cmax else 0.0
    info["ceps"] = float(ceps)
    Jmin = J_direct(srows, prows, cstar)
    info["Jmin"] = float(Jmin)
    # exact sanity of the exact side: gradient vanishes
    # (3) intermediates of the real code vs the model, double precision
    if iout is None:
        fail("C09:impl:no-output", "harness produced no output for the case")
        return info
    if iout.get("_crashed"):
        fail("C09:fit:crash", "the fitter crashed on a well-posed problem: " + iout["_crashed"][:200])
    def cmp_dense(tag, itok, mtok, K, what):
        signame = ("normal-system:" + tag.split(".")[0]) if tag.split(".")[0] in ("cpp", "c") else tag.split(".")[0]
        if itok is None or mtok is None:
            fail("C09:corr:" + signame + ":missing", what + ": object missing on one side")
            return
        if itok[:2] != mtok[:2]:
            fail("C09:corr:" + signame + ":shape", "%s: shape %s (code) vs %s (model)" % (what, itok[:2], mtok[:2]))
            return
        ex = [Fr(x) for x in mtok[2:]]
        im = [fr_of_hex(x) for x in itok[2:]]
        scale = max([abs(x) for x in ex] + [Fr(0)])
        t = K * U53 * scale
        worst = max([abs(a - b) for a, b in zip(ex, im)] + [Fr(0)])
        if worst > t:
            k = max(range(len(ex)), key=lambda i: abs(ex[i] - im[i]))
            ncol = int(mtok[1])
            fail("C09:corr:" + signame, "%s: entry (%d,%d) is %r in the code, %r exactly (allowed %.3g)" % (
                what, k // ncol, k % ncol, float(im[k]), float(ex[k]), float(t)), tag=tag)
    for k in range(nd):
        cmp_dense("basis.%d" % k, iout.get("basis.%d" % k), mout.get("basis.%d" % k), 64, "bsplinebasis of dimension %d" % k)
        if penalty_callable(c["dims"][k]):
            cmp_dense("pen.%d" % k, iout.get("pen.%d" % k), mout.get("pen.%d" % k), 4096, "calc_penalty of dimension %d" % k)
        elif ("pen.%d" % k) in iout or ("pen.%d" % k) in mout:
            fail("C09:corr:pen:unexpected", "calc_penalty output present for a penalty order outside its domain (dimension %d)" % k)
    for tag in ("Farr", "Rarr"):
        it, mt = iout.get(tag), mout.get(tag)
        if it is None or mt is None:
            fail("C09:corr:%s:missing" % tag, tag + " missing")
            continue
        if it[0] != "0":
            fail("C09:corr:%s" % tag, "slicemultiply returned error %s" % it[0])
            continue
        ir, idict = arr_to_dict(it[1:], fr_of_hex)
        mr_, mdict = arr_to_dict(mt, Fr)
        if ir != mr_:
            fail("C09:corr:%s" % tag, "%s: ranges %s (code) vs %s (model)" % (tag, ir, mr_))
            continue
        scale = max([abs(x) for x in mdict.values()] + [Fr(0)])
        t = 1024 * U53 * scale
        for idx in set(idict) | set(mdict):
            a, b = idict.get(idx, Fr(0)), mdict.get(idx, Fr(0))
            if abs(a - b) > t:
                fail("C09:corr:%s" % tag, "%s array after the slice multiplications: entry %s is %r in the code, %r exactly (allowed %.3g)" % (
                    tag, list(idx), float(a), float(b), float(t)))
                break
    for ep in ("cpp", "c"):
        cmp_dense(ep + ".A", iout.get(ep + ".A"), mout.get("A"), 4096, "normal matrix handed to cholesky_solve (%s entry point)" % ep)
        itok = iout.get(ep + ".r")
        if itok is not None:
            cmp_dense(ep + ".r", [itok[0], "1"] + itok[1:], [mout["r"][0], "1"] + mout["r"][1:], 4096, "right-hand side handed to cholesky_solve (%s entry point)" % ep)
    # (4) the property: returned coefficients vs exact minimiser; exact objective at the returned coefficients
    for ep in ("cpp", "c"):
        tk = iout.get(ep + ".coef")
        if tk is None:
            continue
        if tk[0] != "0":
            fail("C09:fit:failed:" + ep, "fit reported failure on a well-posed problem (exact normal matrix positive definite, condition %.3g)" % info["cond"], entry=ep)
            continue
        ci = [fr_of_hexf(x) for x in tk[2:2 + n]]
        if len(ci) != n:
            fail("C09:fit:ncoef:" + ep, "fit returned %d coefficients, expected %d" % (len(ci), n))
            continue
        worst = max(range(n), key=lambda i: abs(ci[i] - cstar[i]) - tol[i])
        if abs(ci[worst] - cstar[worst]) > tol[worst]:
            fail("C09:fit:coef:" + ep, "coefficient %d is %r, the exact minimiser has %r (allowed deviation %.3g; condition %.3g)" % (
                worst, float(ci[worst]), float(cstar[worst]), float(tol[worst]), info["cond"]), entry=ep)
        Ji = J_direct(srows, prows, ci)
        tolJ = n * normA * max(tol) ** 2
        info["Jexcess_" + ep] = float(Ji - Jmin)
        if Ji < Jmin - Jslack:
            fail("C09:oracle:J-below-min", "exact objective at the returned coefficients is BELOW the exact minimum: model/definition inconsistent")
        elif Ji - Jmin > tolJ:
            fail("C09:fit:J:" + ep, "objective at the returned coefficients exceeds the minimum by %.6g (J_min %.6g, allowed %.3g)" % (
                float(Ji - Jmin), float(Jmin), float(tolJ)), entry=ep)
    # (5) kind-specific statements
    if c["kind"] == "poly":
        if Jmin > Jslack:
            fail("C09:poly:Jmin", "data are a polynomial of degree below the penalty order on the fully supported range, yet the exact minimum is %r != 0" % float(Jmin))
    if c["kind"] == "spline":
        dev = max(abs(a - Fr(b)) for a, b in zip(cstar, c["ctrue"]))
        info["spline_dev"] = float(dev)
        if dev > 1024 * U53 * normAinv * (normA * cmax + rmax) + Fr(1, 2 ** 140):
            fail("C09:spline:reproduce", "lambda = 0 and data generated from a spline on the same knots: exact minimiser deviates from the generating coefficients by %.3g" % float(dev))
    return info

# ------------------------------------------------------------------------------------------------
def case_public(c):
    """JSON-able, replayable form: doubles as hex so that nothing is lost"""
    d = json.loads(json.dumps(c))
    d["_hex"] = case_text(c)
    return d

def run(info, out):
    tier, seed = info["tier"], info["seed"]
    t0 = time.time()
    exe_i = build_impl()
    exe_m = build_model()
    rng = Rng(seed).fork("C09")
    pool = Pool(NCPU)
    cov = {"input_distribution": {}}
    try:
        # ---- replay
        if info.get("replay"):
            payload = json.load(open(info["replay"]))
            cases = [payload["case"]] if "case" in payload else []
            if not cases:
                print("replay file carries no case (broken: %s)" % payload.get("broken"))
                return {"evaluations": 0, "distinct_nontrivial": 0, "rule": "replay"}
            iout, crashes = run_impl_cases(exe_i, cases)
            mout = run_model_cases(exe_m, cases, "zq", None)
            for c in cases:
                res = analyse((c, iout.get(c["id"]), mout.get(c["id"]), None))
                print("replay %s: status=%s n=%s cond=%s" % (c["id"], res["status"], res.get("n"), res.get("cond")))
                for sig, what, det in res["fails"]:
                    print("  FAIL [%s] %s" % (sig, what))
                    out.violation(sig, what, {"case": c, "detail": det})
                if not res["fails"]:
                    print("  no failure on the current tree")
            return {"evaluations": len(cases), "distinct_nontrivial": len(cases), "rule": "replay"}
        # ---- cases: corpus first, then generated
        nbase = 150 if tier == "quick" else 2500
        cases = []
        cdir = os.path.join(VERIF, "corpus", "C09")
        if os.path.isdir(cdir):
            for f in sorted(os.listdir(cdir)):
                if f.endswith(".json"):
                    cc = json.load(open(os.path.join(cdir, f)))
                    cc = cc.get("case", cc)
                    cc["id"] = "corpus_" + f[:-5]
                    cases.append(cc)
        ncorpus = len(cases)
        for i in range(nbase):
            base = gen_case(rng, "g%d" % i, big=(tier == "thorough" and i % 250 == 0))
            cases.append(base)
            cases.append(make_variant(rng, base))
        # the structured family (own random stream: the random family of a seed stays what it was)
        rs = Rng(seed).fork("C09-structured")
        plan = struct_plan(rs, tier)
        nstruct = 0
        for i, desc in enumerate(plan):
            sc = gen_case_struct(rs.fork("s%d" % i), "s%d" % i, desc)
            cases.append(sc)
            nstruct += 1
            if i % 4 == 0:
                cases.append(make_variant(rs.fork("v%d" % i), sc))
        # rescaled twins (own random stream): the same fit posed in other units — knots and abscissae times 2^-k with the smoothing
        # strength times 2^(-2*porder*k), or all weights AND all smoothing strengths times 2^-m. Exactly equivalent problems (dyadic
        # factors), so every exact oracle applies unchanged; strengths far below machine epsilon / tiny weights are ordinary here
        rr = Rng(seed).fork("C09-rescaled")
        nresc = 0
        for i, c0 in enumerate(list(cases[ncorpus:])):
            if i % 9 != 4 or str(c0["id"]).endswith("v") or c0.get("variant_of"):
                continue            # (variants are compared with their base case: rescale base cases only)
            c1 = json.loads(json.dumps(c0)); c1["id"] = "r" + str(c0["id"])
            how = rr.choice(["length", "length", "weight"])
            if how == "length":
                k = rr.choice([10, 14, 17, 20])
                for d in c1["dims"]:
                    d["knots"] = [v * 2.0 ** -k for v in d["knots"]]
                    d["coords"] = [v * 2.0 ** -k for v in d["coords"]]
                    if d["smooth"] != 0.0:
                        d["smooth"] = d["smooth"] * 2.0 ** (-2 * d["porder"] * k)
            else:
                m = rr.choice([30, 50, 62])
                for e in c1["entries"]:
                    e[2] = e[2] * 2.0 ** -m
                for d in c1["dims"]:
                    d["smooth"] = d["smooth"] * 2.0 ** -m
            if len(set(d["smooth"] for d in c1["dims"])) > 1:
                c1["flags"] = int(c1.get("flags", 0)) & ~1       # bit 0 = "the C++ call gets the single strength smooth[0]": only for equal strengths
            c1["rescaled"] = how
            cases.append(c1); nresc += 1
        suspicious = (not info["proof_ok"])
        results = process(cases, exe_i, exe_m, pool, out)
        # a broken obligation (e.g. the glam translator failing closed) turns the sample of axis lengths into the full sweep
        cov["long_axis_cases"] = check_long_axis(Rng(seed).fork("C09-long-axis"), "thorough" if suspicious else tier, exe_i, pool, out)
        if suspicious or any(r["fails"] for r in results.values()):
            # search harder: 10x volume through the same oracle
            extra = []
            for i in range(nbase * (10 if tier == "quick" else 2)):
                base = gen_case(rng, "x%d" % i)
                extra.append(base)
            for rep in range(5 if tier == "quick" else 2):
                for i, desc in enumerate(struct_plan(rs.fork("xplan%d" % rep), tier)):
                    extra.append(gen_case_struct(rs.fork("x%d_%d" % (rep, i)), "xs%d_%d" % (rep, i), desc))
            results2 = process(extra, exe_i, exe_m, pool, out)
            cases += extra
            results.update(results2)
            if suspicious and not any(r["fails"] for r in results.values()):
                pass  # run.py reports proof-broken with no failing input
        # ---- a subset through the extracted Coq instance QcA: identical rationals required
        small = [c for c in cases if results.get(c["id"], {}).get("n", 999) <= (30 if tier == "quick" else 60)][: (12 if tier == "quick" else 200)]
        if small:
            mq = run_model_cases(exe_m, small, "qc", pool)
            mz = run_model_cases(exe_m, small, "zq", pool)
            ndiff = sum(1 for c in small if mq.get(c["id"]) != mz.get(c["id"]))
            cov["qc_instance_cases"] = len(small)
            if ndiff:
                out.violation("C09:model:instances", "extracted QcA instance and Zarith closures disagree on %d cases" % ndiff,
                              {"broken": "fit_driver arithmetic instances", "no_failing_input_found": True})
        # ---- coverage
        ok = [c for c in cases if results.get(c["id"], {}).get("status") == "ok"]
        hashes = set(case_hash(c) for c in ok)
        dist = {"structural_classes": {}, "family": {}, "ndim": {}, "order": {}, "porder": {}, "smooth": {}, "kind": {}, "ncoef": {}, "status": {}, "flags": {}, "entries": {}, "max_knot_multiplicity": {}, "illposed_with_repeated_knots": {}, "abscissae_at_or_above_upper_end": {}}
        def bump(k, v):
            dist[k][str(v)] = dist[k].get(str(v), 0) + 1
        for c in cases:
            st = results.get(c["id"], {}).get("status", "?")
            bump("status", st)
            if st != "ok" and any(max_mult(d["knots"]) > 1 for d in c["dims"]):
                bump("illposed_with_repeated_knots", st)      # counted, not flagged: outside the property
        for c in ok:
            bump("ndim", len(c["dims"])); bump("kind", c["kind"]); bump("flags", c["flags"])
            bump("family", c.get("family", "random"))
            for cl in axis_classes(c):
                bump("structural_classes", cl)
            n = results[c["id"]]["n"]
            bump("ncoef", "<=8" if n <= 8 else "<=24" if n <= 24 else "<=64" if n <= 64 else ">64")
            total = 1
            for d in c["dims"]:
                bump("order", d["order"]); bump("porder", d["porder"]); bump("smooth", d["smooth"]); bump("max_knot_multiplicity", max_mult(d["knots"])); total *= len(d["coords"])
                knq = [Fr(k) for k in d["knots"]]
                for x in d["coords"]:
                    if Fr(x) >= knq[nspl_of(d)] and Fr(x) <= knq[-1]:
                        # at/above the upper end of full support: the left-continuous side; "row differs" = the row is not what the
                        # right-continuous basis (the code before fix F30_1) gave: last knot of an order-0 or end-clamped dimension, jumps
                        changed = any(exact_bspline(knq, Fr(x), j, d["order"], True) != exact_bspline(knq, Fr(x), j, d["order"], False) for j in range(nspl_of(d)))
                        bump("abscissae_at_or_above_upper_end", ("on a knot" if Fr(x) in knq else "off knots") + (", row differs from the right-continuous basis" if changed else ""))
            ne = len(c["entries"])
            bump("entries", "full" if ne >= total else "sparse")
        conds = sorted(results[c["id"]]["cond"] for c in ok)
        tols = sorted(results[c["id"]]["tol_rel"] for c in ok)
        cov.update({
            "evaluations": 2 * len(ok),
            "distinct_nontrivial": len(hashes),
            "rule": ("a case is one well-posed fitting problem (exact normal matrix positive definite, decided exactly) with 1..3 dimensions, orders 0..3, penalty orders 0..order, "
                     "irregular dyadic knots (a fifth of the dimensions of order >= 1 with a run of 2..order+1 repeated knots), up to 8 abscissae per dimension (inside, on knots, on knots at/above knots[nsplines] and on the last knot, in the margins, outside the support), dense or sparse cells, duplicate cells, "
                     "zero and positive dyadic weights, smoothing in {0, 2^-10, 1, 2^10} (single or per dimension); every case is run through both entry points (C++ fit, C splinetable_glamfit) "
                     "and is followed by a permuted + zero-weight-padded variant; non-trivial = well-posed with at least 2 coefficients; distinct by the full input text. "
                     "STRUCTURED family (round 3; input_distribution.family / .structural_classes give the measured counts per class): ENUMERATED every run - an axis with one and with two basis functions "
                     "(nknots = order+2, order+3) x every legal (order 0..3, penalty order 0..min(order, nsplines)), penalty order = nsplines (difference matrix without rows) included, x zero / non-zero smoothing "
                     "x every axis position of a 1-, 2- and 3-dimensional fit; a penalty order beyond order / nsplines where the smoothing is zero; DRAWN - twin axes (same order, knots, abscissae) and near-twins "
                     "(one knot / one abscissa / the order / only the penalty differs) for every pair of axes, a data grid of length 1 in each position, one long axis (8..16 basis functions) next to axes with 1-2; "
                     "tables with fewer than 2*order+2 knots in a dimension cannot be evaluated but the fit statement (normal system, minimiser, objective) is compared all the same (the `poly' kind is not used there)"),
            "samples": [case_public(c) for c in ok[:2]],
            "traces_validated_against_impl": len(ok),
            "input_distribution": dist,
            "corpus_cases": ncorpus,
            "structured_cases": nstruct,
            "condition_numbers": {"median": conds[len(conds) // 2] if conds else None, "max": conds[-1] if conds else None},
            "relative_tolerance": {"median": tols[len(tols) // 2] if tols else None, "max": tols[-1] if tols else None},
            "tolerances": ("coefficients: |c_impl_i - c*_i| <= 2^-24 |c*_i| + 32(n+8) 2^-53 ||A^-1||_inf (||A||_inf |c*|_inf + |r|_inf), norms exact; "
                           "objective: 0 <= J(c_impl) - J(c*) <= n ||A||_inf tol^2; intermediates: K 2^-53 max|entry| with K = 64 (basis), 1024 (arrays), 4096 (penalty, A, r)"),
            "wall_check_s": round(time.time() - t0, 1),
        })
        return cov
    finally:
        pool.terminate()

# one LONG axis (33..128 basis functions) next to a short one: the sizes of the flattened arrays, of the index arithmetic that
# reshapes them and of the Kronecker factors are those of real fits. The list-based model is not run on these; the normal system
# the code hands to the solver is compared with the DIRECT definition (sum of w b b' and lambda p p', assembled exactly), which
# by C09_glam_is_kron / C09_fit_system_is_normal_system is what the model's GLAM path yields for every shape.
def _long_axis_job(args):
    c, io = args
    fails = []
    if io is None:
        return c["id"], [("C09:impl:no-output", "harness produced no output for the long-axis case", {})]
    if io.get("_crashed"):
        return c["id"], [("C09:fit:crash", "the fitter crashed on a long-axis problem: " + io["_crashed"][:200], {})]
    A, r, _, _ = direct_system(c)
    n = len(A)
    for ep in ("cpp", "c"):
        tk = io.get(ep + ".A")
        if tk is None:
            continue
        if [int(tk[0]), int(tk[1])] != [n, n]:
            fails.append(("C09:corr:normal-system:%s:shape" % ep, "normal matrix has shape %s, expected %d x %d" % (tk[:2], n, n), {})); continue
        im = [fr_of_hex(x) for x in tk[2:]]
        scale = max(abs(x) for row in A for x in row)
        t = 4096 * U53 * scale
        worst, wk = Fr(0), 0
        for i in range(n):
            Ai = A[i]
            for j in range(n):
                dlt = abs(Ai[j] - im[i * n + j])
                if dlt > worst:
                    worst, wk = dlt, i * n + j
        if worst > t:
            fails.append(("C09:corr:normal-system:" + ep, "long axis (%s basis functions): entry (%d,%d) of the normal matrix handed to cholesky_solve is %r in the code, %r exactly (allowed %.3g)" % (
                [nspl_of(d) for d in c["dims"]], wk // n, wk % n, float(im[wk]), float(A[wk // n][wk % n]), float(t)), {"entry": ep}))
        rk = io.get(ep + ".r")
        if rk is not None:
            ir = [fr_of_hex(x) for x in rk[1:]]
            rs = max([abs(x) for x in r] + [Fr(0)])
            if len(ir) != n or max(abs(a - b) for a, b in zip(ir, r)) > 4096 * U53 * max(rs, Fr(1, 2 ** 200)):
                fails.append(("C09:corr:normal-system:" + ep, "long axis: right-hand side handed to cholesky_solve differs from the exact one", {"entry": ep}))
    return c["id"], fails

def check_long_axis(rng, tier, exe_i, pool, out):
    lens = list(range(33, 129))
    if tier == "quick":
        rng.shuffle(lens); lens = lens[:10]
    cases = []
    for q, nlong in enumerate(lens):
        order = rng.choice([1, 1, 2])
        short = dim_fixed(rng, rng.choice([0, 1]), rng.choice([2, 3]), 0, 0.0, rng.rint(2, 3))
        long_ = dim_fixed(rng, order, nlong, rng.rint(0, order), rng.choice([0.0, 2.0 ** -10, 1.0]), nlong + rng.rint(0, 3), plain=True)
        dims = [long_, short] if q % 2 == 0 else [short, long_]
        c = fill_data(rng, "L%d" % q, dims, "random", 0)
        c["family"] = "long-axis"
        cases.append(c)
    iout, crashes = run_impl_cases(exe_i, cases)
    byid = {c["id"]: c for c in cases}
    for cid, fails in pool.imap_unordered(_long_axis_job, [(c, iout.get(c["id"])) for c in cases], chunksize=1):
        for sig, what, det in fails:
            out.violation(sig, what + " [case %s]" % cid, {"case": byid[cid], "detail": det, "case_text": case_text(byid[cid])})
    return len(cases)

def process(cases, exe_i, exe_m, pool, out):
    iout, crashes = run_impl_cases(exe_i, cases)
    mout = run_model_cases(exe_m, cases, "zq", pool)
    base = [c for c in cases if "variant_of" not in c]
    res = {}
    for r in pool.imap_unordered(analyse, [(c, iout.get(c["id"]), mout.get(c["id"]), None) for c in base], chunksize=1):
        res[r["id"]] = r
    variants = [c for c in cases if "variant_of" in c]
    for r in pool.imap_unordered(analyse, [(c, iout.get(c["id"]), mout.get(c["id"]), {"A_hash": res.get(c["variant_of"], {}).get("A_hash")}) for c in variants], chunksize=1):
        res[r["id"]] = r
    byid = {c["id"]: c for c in cases}
    for cid, r in res.items():
        for sig, what, det in r["fails"]:
            payload = {"case": byid[cid], "detail": det, "case_text": case_text(byid[cid]), "status": r["status"], "cond": r.get("cond")}
            if sig.startswith("C09:model") or sig.startswith("C09:oracle"):
                payload["broken"] = "model FitModel.fit_system vs the direct definition of the objective"
            out.violation(sig, what + " [case %s]" % cid, payload)
    return res
