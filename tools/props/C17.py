"""C17 — grid evaluation agrees with pointwise evaluation.

Case file: a table (T/D/C lines as in evalfam.py) followed by grids  "G <id> <exact 0/1> <n0> <hex64>*n0 <n1> ...".
Model side: extract/gen/grid_driver (GridModel.v at binary64, and at Qc for grids flagged exact);
implementation side: harness/C17_harness.cpp (bsplinebasis directly, splinetable::grideval, splinetable_grideval,
pointwise ndsplineeval at every grid point)."""
import itertools
from fractions import Fraction
from evalfam import *
import common as _cm

PROPERTIES_FILE = "Properties_C17"
ASSUMPTIONS = [
    "theorems are about GridModel.v over an ordered field (exact arithmetic); the rounding gap to binary64 is measured on every run against exact rationals "
    "(|value - exact| <= K*2^-53*sum|terms|), not proved",
    "CHOLMOD (dense_to_sparse, transpose, triplet_to_sparse, ssmult, sparse_to_triplet) is modelled by its documented meaning (GridModel.v header); "
    "its summation order is unspecified, so sums are compared within the tolerance, never bitwise; the stored pattern is compared exactly",
    "integer index arithmetic modelled unbounded (slicemultiply's int cols/stride would wrap for >= 2^31 grid cells)",
    "model tied to the code by this run's correspondence: basis matrices bitwise, ranges and stored index sets exactly, values within the measured bound",
]
TRUSTED_EXTRA = ["SuiteSparse/CHOLMOD as linked by the harness (external library; modelled by its documentation)",
                 "tools/props/C17.py exact-rational transcription of GridModel.grid_spec (cross-checked every run against the extracted Qc definitions)"]

STRICT_STYLES = ["uniform", "irregular", "irregular", "integer", "wild"]
GRID_CLASSES = ["knot", "knot+", "knot-", "mid", "mid", "lmargin", "rmargin", "rand", "rand", "full_lo", "full_hi", "last", "first", "below", "above", "upper_knot"]

def gen_coord17(rng, t, d, cls):
    if cls == "upper_knot":         # exactly on a knot at or above knots[naxes] (the last knot included): where the basis is left-continuous
        k = t.knots[d]
        return k[rng.rint(len(k) - t.orders[d] - 1, len(k) - 1)]
    return gen_coord(rng, t, d, cls)

# ------------------------------------------------------------------------------------------------
class Case:
    def __init__(self, table, grids, exact, classes, kind):
        self.t, self.grids, self.exact, self.classes, self.kind = table, grids, exact, classes, kind
    def gline(self, gid):
        return "G %s %d %s" % (gid, 1 if self.exact else 0, " ".join("%d %s" % (len(g), " ".join(hexd(x) for x in g)) for g in self.grids))
    def payload(self, gid="replay"):
        return {"table": self.t.to_json(), "grids": [[hexd(x) for x in g] for g in self.grids], "grids_float": [[repr(x) for x in g] for g in self.grids],
                "exact": self.exact, "classes": self.classes, "kind": self.kind, "case_lines": self.t.lines() + [self.gline(gid)]}
    def key(self):
        return (tuple(self.t.orders), tuple(map(tuple, self.t.knots)), tuple(hexf(c) for c in self.t.coefs), tuple(tuple(hexd(x) for x in g) for g in self.grids))

def case_from_payload(p):
    tj = p["table"]
    t = Table(tj["orders"], [[dfrom(int(h, 16)) for h in k] for k in tj["knots"]], [ffrom(int(h, 16)) for h in tj["coefs"]], dfrom(int(tj["pad"], 16)))
    grids = [[dfrom(int(h, 16)) for h in g] for g in p["grids"]]
    return Case(t, grids, bool(p.get("exact")), p.get("classes", []), p.get("kind", "corpus"))

def has_repeat(knots):
    return any(a == b for a, b in zip(knots, knots[1:]))

def gen_case(rng, small=False, allow_repeated=True):
    ndim = rng.choice([1, 1, 2, 2, 2, 3, 3, 4])
    kind = "strict"
    # repeated knots are routine since fix 07dbb30 (splineutil.c:bspline skips vanishing denominators): about a quarter of the
    # tables carry them, in any dimension, with multiplicities up to and beyond order+1 (discontinuous splines)
    if allow_repeated and rng.chance(0.27):
        kind = "repeated"
    maxc = 40 if small else 1500
    while True:
        orders = [rng.choice([0, 1, 1, 2, 2, 3, 3, 4]) for _ in range(ndim)]
        extras = [rng.choice([0, 0, 1, 2, 3, 5]) if ndim > 2 or small else rng.choice([0, 1, 2, 4, 7, 12]) for _ in range(ndim)]
        nco = 1
        for o, e in zip(orders, extras):
            nco *= o + 1 + e
        if nco <= maxc:
            break
    knots = []
    forced = rng.below(ndim)        # in a "repeated" table this dimension certainly has a repeated knot, the others with probability 1/2
    for d, (o, e) in enumerate(zip(orders, extras)):
        scale = 10.0 ** rng.rint(-2, 2)
        offset = (rng.unit() * 20 - 10) * scale
        if kind == "repeated" and (d == forced or rng.chance(0.5)):
            for _ in range(50):
                ks = gen_knots(rng, o, e, "repeated", scale, offset)
                if has_repeat(ks):
                    break
            if rng.chance(0.3):     # a knot of multiplicity order+1 or order+2 somewhere (full-multiplicity: the spline may jump there)
                m = o + 1 + rng.below(2)
                if m < len(ks) - 1:
                    j = rng.below(len(ks) - m)
                    lo = max(0, len(ks) - o - 1 - m + 1)
                    if rng.chance(0.5) and lo <= len(ks) - m - 1:
                        j = rng.rint(lo, len(ks) - m - 1)      # the run reaches knots[naxes] or lies above it: a jump where the basis is left-continuous (former D30)
                    for q in range(j + 1, j + m):
                        ks[q] = ks[j]
                    for q in range(1, len(ks)):
                        if ks[q] < ks[q - 1]:
                            ks[q] = ks[q - 1]
                    if not (ks[0] < ks[-1]):
                        ks[-1] = ks[0] + abs(ks[0]) + 1.0
        else:
            ks = gen_knots(rng, o, e, rng.choice(STRICT_STYLES), scale, offset)
            if has_repeat(ks):
                ks = gen_knots(rng, o, e, "uniform", scale, offset)
        knots.append(ks)
    if kind == "repeated" and not any(has_repeat(k) for k in knots):
        kind = "strict"
    # sparse coefficient array: many exact zeros
    style = rng.choice(["sparse", "sparse", "sparse", "verysparse", "dense", "single", "allzero" if rng.chance(0.25) else "sparse", "edges"])
    pz = {"sparse": rng.choice([0.3, 0.6, 0.85]), "verysparse": 0.97, "dense": 0.0, "single": 1.0, "allzero": 1.0, "edges": 0.5}[style]
    coefs = [0.0 if rng.chance(pz) else gen_coef(rng, rng.choice(["rand", "posneg"])) for _ in range(nco)]
    if style == "single":
        coefs[rng.below(nco)] = gen_coef(rng, "rand") or 1.0
    if style == "edges":      # zero slabs at the edges of the array: the reason grideval sets the ranges by hand
        naxes = [o + 1 + e for o, e in zip(orders, extras)]
        strides = [1] * ndim
        for i in range(ndim - 2, -1, -1):
            strides[i] = strides[i + 1] * naxes[i + 1]
        for p in range(nco):
            idx = [(p // strides[d]) % naxes[d] for d in range(ndim)]
            if any(i == naxes[d] - 1 for d, i in enumerate(idx)) or idx[0] == 0:
                coefs[p] = 0.0
    t = Table(orders, knots, coefs, rng.choice([math.nan, 1e300, 0.0]))
    # grids: arbitrary, unsorted, repeated abscissae, points outside the range, single-point axes
    budget = 30 if small else 400
    grids, classes = [], []
    per = max(1, int(round(budget ** (1.0 / ndim))))
    for d in range(ndim):
        n = 1 if rng.chance(0.15) else rng.rint(1, max(1, per))
        g, cl = [], []
        for _ in range(n):
            if g and rng.chance(0.15):
                j = rng.below(len(g)); g.append(g[j]); cl.append(cl[j] + "*")     # repeated abscissa
            else:
                c = rng.choice(GRID_CLASSES)
                g.append(gen_coord17(rng, t, d, c)); cl.append(c)
        if rng.chance(0.3):
            order = sorted(range(n), key=lambda i: g[i])
            g = [g[i] for i in order]; cl = [cl[i] for i in order]
        grids.append(g); classes.append(cl)
    return Case(t, grids, small, classes, kind + "/" + style)

# ------------------------------------------------------------------------------------------------
# exact specification: Cox-de Boor (0/0 := 0) with the one-sided convention of the evaluation properties (BSpline.side_of: right-continuous
# below knots[naxes], naxes = nknots-order-1, left-continuous from there upwards), sum over all coefficients — GridModel.grid_spec / grid_abs
def basis_side(knots, order, x):
    k = [Fraction(v) for v in knots]
    x = Fraction(x)
    n = len(k)
    if x < k[n - order - 1]:
        cur = [Fraction(1) if (k[i] <= x < k[i + 1]) else Fraction(0) for i in range(n - 1)]
    else:
        cur = [Fraction(1) if (k[i] < x <= k[i + 1]) else Fraction(0) for i in range(n - 1)]
    for p in range(1, order + 1):
        nxt = []
        for i in range(n - p - 1):
            d1, d2 = k[i + p] - k[i], k[i + p + 1] - k[i + 1]
            a = (x - k[i]) / d1 * cur[i] if d1 != 0 else Fraction(0)
            b = (k[i + p + 1] - x) / d2 * cur[i + 1] if d2 != 0 else Fraction(0)
            nxt.append(a + b)
        cur = nxt
    return {i: v for i, v in enumerate(cur) if v != 0}

def grid_exact(case):
    """dict: grid multi-index -> (value, sum|terms|) for every grid point with a nonzero term; others are (0,0)"""
    t = case.t
    nd = t.ndim
    strides = [1] * nd
    for i in range(nd - 2, -1, -1):
        strides[i] = strides[i + 1] * t.naxes[i + 1]
    size = t.naxes[0] * strides[0]
    cur = {}
    for p in range(size):
        c = t.coefs[p] if p < len(t.coefs) else 0.0
        if c != 0:
            idx = tuple((p // strides[d]) % t.naxes[d] for d in range(nd))
            cur[idx] = (Fraction(c), abs(Fraction(c)))
    for d in range(nd):
        rows = [basis_side(t.knots[d], t.orders[d], x) if math.isfinite(x) else {} for x in case.grids[d]]
        bycol = {}
        for r, row in enumerate(rows):
            for i, v in row.items():
                bycol.setdefault(i, []).append((r, v))
        nxt = {}
        for idx, (v, a) in cur.items():
            for r, b in bycol.get(idx[d], ()):
                j = idx[:d] + (r,) + idx[d + 1:]
                ov, oa = nxt.get(j, (0, 0))
                nxt[j] = (ov + v * b, oa + a * abs(b))
        cur = nxt
    return cur

def parse_q(s):
    num, den = s.split("/")
    neg = num.startswith("-")
    n = int(num.lstrip("-"), 16)
    return Fraction(-n if neg else n, int(den, 16))

def K_of(t):
    k = 16 * sum(o + 2 for o in t.orders)
    nterms = 1
    for o in t.orders:
        nterms *= o + 1
    return k + 2 * nterms

ETA = Fraction(1, 2 ** 1000)
def within(val, exact, absum, t, u=Fraction(1, 2 ** 53)):
    if val != val or val in (math.inf, -math.inf):
        return False
    return abs(Fraction(val) - exact) <= K_of(t) * u * absum + ETA * (1 + absum)

# ------------------------------------------------------------------------------------------------
def parse_records(text):
    """-> {gid: {"B": {dim: (nrow, ncol, entries-string)}, "R": {who: str}, "P": [..], "X": [..], "Y": [..]}}"""
    res = {}
    for line in text.split("\n"):
        tk = line.split()
        if len(tk) < 2:
            continue
        r = res.setdefault(tk[1], {"B": {}, "R": {}})
        if tk[0] == "B":
            r["B"][int(tk[2])] = (int(tk[3]), int(tk[4]), tk[5:])
        elif tk[0] == "R":
            r["R"][tk[2]] = tk[3:]
        elif tk[0] in ("P", "X", "Y"):
            r[tk[0]] = tk[2:]
    return res

def parse_nd(tokens):
    """-> None for THROW, else (ndim, ranges, [(idx tuple, float)], duplicates?)"""
    if not tokens or tokens[0] == "THROW":
        return None
    nd = int(tokens[0])
    ranges = tuple(int(x) for x in tokens[1].split("=")[1].split(","))
    ents = []
    for e in tokens[3:]:
        i, v = e.split(":")
        ents.append((tuple(int(x) for x in i.split(",")), dfrom(int(v, 16))))
    return nd, ranges, ents

def nan_eq_tokens(a, b):
    if a == b:
        return True
    if len(a) != len(b):
        return False
    for x, y in zip(a, b):
        if x != y:
            if ":" not in x or ":" not in y:
                return False
            ix, vx = x.split(":"); iy, vy = y.split(":")
            if ix != iy or not (is_nan_hex(vx) and is_nan_hex(vy)):
                return False
    return True

class C17:
    PROP = "C17"
    RULE = ("tables of 1..4 dims, orders 0..4 mixed, knot vectors uniform/irregular/integer/wild spacing and (about a quarter of the tables) with repeated knots in one or "
            "more dimensions, multiplicities up to order+2, "
            "coefficient arrays with 30-100% exact zeros (sparse, very sparse, single entry, zero edge slabs, all zero) x grids whose abscissae are drawn per axis from "
            "{every knot, both float neighbours, midpoints, both margins, ends of full support, first/last knot, beyond both ends}, unsorted, with repeated abscissae and "
            "single-point axes; non-trivial = at least two dimensions or an axis with a repeated/out-of-range/on-knot abscissa; distinct by (orders, knots, coefficient bits, grid bits)")

    def __init__(self):
        self.harness = None
        self.model = None
        self.d17_skipped = [0]
        self.lastknot = [0, 0, 0, 0]   # grid points with a coordinate on the last knot: agree with pointwise / differ / with a nonzero exact value / pointwise NaN (C01 residual)
        self.lastknot_samples = []
    def build(self):
        if self.harness is None:
            self.harness = build_harness("C17_harness", ["C17_harness.cpp"], flavour="faithful", fitter=True)
            self.model = build_extracted("grid")

    def execute(self, cases, tag, model=True):
        self.build()
        wd = build_dir("cases-C17-%d" % os.getpid())
        shards = [[] for _ in range(NCPU)]
        ids = {}
        for ci, c in enumerate(cases):
            gid = "%s%d" % (tag, ci)
            ids[gid] = c
            shards[ci % NCPU] += c.t.lines() + [c.gline(gid)]
        files = []
        for s, lines in enumerate(shards):
            if lines:
                f = os.path.join(wd, "%s_%d.cases" % (tag, s))
                open(f, "w").write("\n".join(lines) + "\n")
                files.append((f, sum(1 for l in lines if l.startswith("G "))))
        impl, mod, crashes = {}, {}, []
        from concurrent.futures import ThreadPoolExecutor
        def run_i(fn):
            f, n = fn
            outs, skip = {}, 0
            cr = []
            while skip < n:
                p = subprocess.run([self.harness, f, str(skip)], stdout=subprocess.PIPE, stderr=subprocess.PIPE, text=True, timeout=1800,
                                   env=dict(os.environ, ASAN_OPTIONS="detect_leaks=0"))
                outs.update(parse_records(p.stdout))
                if p.returncode == 0:
                    break
                ann = [l[1:] for l in p.stderr.split("\n") if l.startswith("@")]
                if not ann:
                    cr.append(("<startup>", p.stderr[-2000:])); break
                cr.append((ann[-1], "exit=%d %s" % (p.returncode, "\n".join(l for l in p.stderr.split("\n") if not l.startswith("@"))[-2000:])))
                outs.pop(ann[-1], None)
                skip += len(ann)
            return outs, cr
        def run_m(fn):
            p = _cm.run([self.model, fn[0]], timeout=3600)
            if p.returncode != 0:
                raise BuildError("grid model driver failed: " + p.stderr[-2000:])
            return parse_records(p.stdout)
        with ThreadPoolExecutor(max_workers=NCPU) as ex:
            fi = [ex.submit(run_i, f) for f in files]
            fm = [ex.submit(run_m, f) for f in files] if model else []
            for fu in fi:
                o, cr = fu.result(); impl.update(o); crashes += cr
            for fu in fm:
                mod.update(fu.result())
        shutil.rmtree(wd, ignore_errors=True)
        return {"ids": ids, "impl": impl, "model": mod, "crashes": crashes}

    # --------------------------------------------------------------------------------------------
    def oracle(self, c, iout, exact):
        """the property statement evaluated on the implementation's output. Returns list of (signature, message)."""
        fails = []
        t = c.t
        lens = tuple(len(g) for g in c.grids)
        for who in ("cpp", "c"):
            entry = "grideval" if who == "cpp" else "splinetable_grideval"
            nd = parse_nd(iout["R"].get(who))
            if nd is None:
                if all(x == 0 for x in t.coefs):
                    continue        # remark: ndsparse(0, ndim) throws for an all-zero coefficient array; the property speaks of values only
                fails.append(("C17:%s:throws" % entry, "%s failed (%s) on a table with nonzero coefficients" % (entry, " ".join(iout["R"].get(who) or []))))
                continue
            ndim, ranges, ents = nd
            if ranges != lens or ndim != t.ndim:
                fails.append(("C17:%s:ranges" % entry, "index ranges %s differ from the grid lengths %s" % (ranges, lens)))
                continue
            listed = {}
            bad = False
            for idx, v in ents:
                if idx in listed:
                    fails.append(("C17:%s:duplicate-index" % entry, "grid index %s listed twice" % (idx,))); bad = True; break
                if len(idx) != t.ndim or any(not (0 <= i < r) for i, r in zip(idx, ranges)):
                    fails.append(("C17:%s:index-out-of-range" % entry, "listed index %s outside the ranges %s" % (idx, ranges))); bad = True; break
                listed[idx] = v
            if bad:
                continue
            pw = iout.get("P", [])
            stats_d17 = self.d17_skipped
            rep = any(has_repeat(k) and o >= 1 for k, o in zip(t.knots, t.orders))
            for n, g in enumerate(itertools.product(*[range(l) for l in lens])):
                xs = [c.grids[d][g[d]] for d in range(t.ndim)]
                if not all(t.knots[d][0] < xs[d] < t.knots[d][-1] for d in range(t.ndim)):
                    # the property speaks of points strictly inside the knot range. Beyond it (measured, never flagged): where the lookup
                    # still succeeds — some x_d exactly ON THE LAST KNOT — C17_agrees_pointwise says the two agree as well (since fix
                    # F30_1 the basis row there is the left limit; it used to be identically zero)
                    if who == "cpp" and n < len(pw) and pw[n] != "-" and all(t.knots[d][0] < xs[d] <= t.knots[d][-1] for d in range(t.ndim)):
                        pd0 = dfrom(int(pw[n].split("/")[0], 16))
                        ev0, ea0 = exact.get(g, (Fraction(0), Fraction(0)))
                        v0 = listed.get(g, 0.0)
                        ok0 = (v0 == v0) and math.isfinite(v0) and math.isfinite(pd0) and abs(Fraction(v0) - Fraction(pd0)) <= 2 * K_of(t) * Fraction(1, 2 ** 53) * ea0 + ETA * (1 + ea0)
                        if pd0 != pd0 and any(xs[d] == t.knots[d][t.naxes[d]] and t.knots[d][t.orders[d]] == t.knots[d][t.naxes[d]] for d in range(t.ndim)):
                            self.lastknot[3] += 1       # pointwise NaN: the fully supported range is the single point x_d (C01's residual), as in scope
                        else:
                            self.lastknot[0 if ok0 else 1] += 1
                            if not ok0 and len(self.lastknot_samples) < 3:
                                self.lastknot_samples.append({"table": t.describe(), "x": [repr(x) for x in xs], "grid": repr(v0), "pointwise": repr(pd0), "exact": str(ev0)})
                            if ev0 != 0:
                                self.lastknot[2] += 1
                    continue
                if n >= len(pw) or pw[n] == "-":
                    continue            # lookup failure strictly inside the range is C04's business
                pd, pf = [dfrom(int(h, 16)) for h in pw[n].split("/")]
                ev, ea = exact.get(g, (Fraction(0), Fraction(0)))
                v = listed.get(g, 0.0)
                if pd != pd and any(xs[d] == t.knots[d][t.naxes[d]] and t.knots[d][t.orders[d]] == t.knots[d][t.naxes[d]] for d in range(t.ndim)):
                    stats_d17[0] += 1
                    continue            # pointwise NaN where the fully supported range is the single point x: the residual of finding D17 (C01), not C17
                okd = (v == v) and math.isfinite(v) and math.isfinite(pd) and abs(Fraction(v) - Fraction(pd)) <= 2 * K_of(t) * Fraction(1, 2 ** 53) * ea + ETA * (1 + ea)
                okf = (v == v) and math.isfinite(v) and math.isfinite(pf) and abs(Fraction(v) - Fraction(pf)) <= 2 * K_of(t) * Fraction(1, 2 ** 24) * ea + Fraction(1, 2 ** 140) * (1 + ea)
                if okd and okf:
                    continue
                if v != v and rep:
                    sig, why = "C17:%s:repeated-knot->NaN" % entry, "NaN"
                elif any(xs[d] >= t.knots[d][t.naxes[d]] and sum(1 for kk in t.knots[d] if kk == xs[d]) >= t.orders[d] + 1 for d in range(t.ndim)):
                    # a knot of multiplicity >= order+1 at or above knots[naxes], strictly inside the range: the spline is discontinuous
                    # there; pointwise evaluation is left-continuous from knots[naxes] upwards (C01) and so is, since fix F30_1, the grid
                    # basis. A mismatch here is the regression of the former finding D30 (status fixed: reported as a violation).
                    sig, why = "C17:%s:one-sided-limits-differ-at-discontinuity" % entry, ("%r" % v if g in listed else "not listed (value zero)")
                elif g not in listed:
                    sig, why = "C17:%s:unlisted-nonzero" % entry, "not listed (value zero)"
                else:
                    sig, why = "C17:%s:value-mismatch" % entry, "%r" % v
                msg = ("grid point %s = %s (strictly inside the knot range): grid evaluation gives %s, pointwise evaluation %r (double) / %r (float), exact %s, sum|terms| %s"
                       % (g, [repr(x) for x in xs], why, pd, pf, float(ev), float(ea)))
                fails.append((sig, msg))
                break
        if iout["R"].get("cpp") != iout["R"].get("c") and not nan_eq_tokens(iout["R"].get("cpp") or [], iout["R"].get("c") or []):
            if not (iout["R"].get("cpp", ["THROW"])[0] == "THROW" and iout["R"].get("c", ["THROW"])[0] == "THROW"):
                fails.append(("C17:splinetable_grideval:differs-from-member", "C wrapper result differs from splinetable::grideval"))
        return fails

    def correspond(self, c, iout, mout, exact):
        """model vs implementation. Returns list of (what, impl, model)."""
        diffs = []
        t = c.t
        for d in range(t.ndim):
            bi, bm = iout["B"].get(d), mout["B"].get(d)
            if bi is None or bm is None or bi[0] != bm[0] or bi[1] != bm[1] or not nan_eq_tokens(bi[2], bm[2]):
                diffs.append(("basis matrix dim %d (bitwise)" % d, bi, bm))
        ri, rm = parse_nd(iout["R"].get("cpp")), parse_nd(mout["R"].get("model"))
        if (ri is None) != (rm is None):
            diffs.append(("throw/no throw", iout["R"].get("cpp"), mout["R"].get("model")))
        elif ri is not None:
            if ri[1] != rm[1]:
                diffs.append(("ranges", ri[1], rm[1]))
            si, sm = [e[0] for e in ri[2]], [e[0] for e in rm[2]]
            if si != sm:
                only_i = [x for x in si if x not in set(sm)][:4]; only_m = [x for x in sm if x not in set(si)][:4]
                diffs.append(("stored index set", "n=%d only-impl=%s" % (len(si), only_i), "n=%d only-model=%s" % (len(sm), only_m)))
            else:
                finite_grid = all(math.isfinite(x) for g in c.grids for x in g)
                for (idx, vi), (_, vm) in zip(ri[2], rm[2]):
                    ev, ea = exact.get(idx, (Fraction(0), Fraction(0)))
                    if finite_grid and not (within(vi, ev, ea, t) and within(vm, ev, ea, t)):
                        diffs.append(("value at %s outside K*u*sum|terms| of the exact value %s (sum|terms| %s)" % (idx, float(ev), float(ea)), vi, vm)); break
        # executed instance of the theorem on exact rationals + cross-check of the Python transcription
        if c.exact and "X" in mout:
            lens = [len(g) for g in c.grids]
            for n, g in enumerate(itertools.product(*[range(l) for l in lens])):
                xs, ys = mout["X"][n], mout["Y"][n]
                sv, sa = [parse_q(q) for q in xs.split("|")]
                if ys != "THROW" and parse_q(ys) != sv:
                    diffs.append(("Qc: nd_get(grideval) != grid_spec at %s" % (g,), ys, xs)); break
                ev, ea = exact.get(g, (Fraction(0), Fraction(0)))
                if (ev, ea) != (sv, sa):
                    diffs.append(("python exact spec != extracted grid_spec/grid_abs at %s" % (g,), (str(ev), str(ea)), xs)); break
        return diffs

    # --------------------------------------------------------------------------------------------
    def analyse(self, res, out, stats, model=True):
        ndiff = 0
        for gid, c in res["ids"].items():
            iout = res["impl"].get(gid)
            if iout is None or "cpp" not in iout["R"]:
                continue
            exact = grid_exact(c)
            stats["evaluations"] = stats.get("evaluations", 0) + 1
            for sig, msg in self.oracle(c, iout, exact):
                p = c.payload(gid)
                p.update({"impl_output": {k: (v if k != "B" else {str(d): list(b) for d, b in v.items()}) for k, v in iout.items()},
                          "model_output": res["model"].get(gid, {}).get("R"), "oracle_verdict": msg})
                out.violation(sig, msg, p)
                stats["oracle_failures"] = stats.get("oracle_failures", 0) + 1
            if model and gid in res["model"]:
                diffs = self.correspond(c, iout, res["model"][gid], exact)
                stats["traces_validated_against_impl"] = stats.get("traces_validated_against_impl", 0) + 1
                nd = parse_nd(iout["R"].get("cpp"))
                stats["compared_values"] = stats.get("compared_values", 0) + (len(nd[2]) if nd else 0) + sum(len(b[2]) for b in iout["B"].values())
                if diffs:
                    ndiff += 1
                    stats.setdefault("diffs", []).append((gid, [(w, str(a)[:300], str(b)[:300]) for w, a, b in diffs[:3]]))
        for gid, detail in res["crashes"]:
            c = res["ids"].get(gid)
            p = c.payload(gid) if c else {}
            p["crash"] = detail
            m = re.search(r"(SUMMARY: \w+: [\w-]+) (\S+)", detail)
            loc = (m.group(1).split(": ")[-1] + "@" + os.path.basename(m.group(2))) if m else "unknown"
            out.violation("C17:crash:" + loc, "grid evaluation crashed: " + detail.strip().split("\n")[-1][:200], p)
        return ndiff

    def gen(self, rng, n):
        cases = []
        for i in range(n):
            cases.append(gen_case(rng, small=(i % 5 == 0)))
        return cases

    def run(self, info, out):
        tier, seed = info["tier"], info["seed"]
        stats = {}
        if info.get("replay"):
            return self.replay(info["replay"], out)
        n = 150 if tier == "quick" else 5000
        corpus = []
        cdir = os.path.join(VERIF, "corpus", "C17")
        if os.path.isdir(cdir):
            for f in sorted(os.listdir(cdir)):
                if f.endswith(".json"):
                    corpus.append(case_from_payload(json.load(open(os.path.join(cdir, f)))))
        if corpus:
            r0 = self.execute(corpus, "corpus")
            self.analyse(r0, out, stats)
            stats["corpus_cases"] = len(corpus)
        cases = self.gen(Rng(seed).fork("main"), n)
        res = self.execute(cases, "g")
        ndiff = self.analyse(res, out, stats)
        searched = 0
        fresh = [v for v in out.violations if v[0] not in open_signatures("C17")]
        if (ndiff or not info["proof_ok"]) and not fresh:
            cases2 = self.gen(Rng(seed + 7919).fork("search"), 10 * n if tier == "quick" else 2 * n)
            r2 = self.execute(cases2, "s", model=False)
            self.analyse(r2, out, stats, model=False)
            searched = len(cases2)
            fresh = [v for v in out.violations if v[0] not in open_signatures("C17")]
            if not fresh and ndiff:
                gid, d = stats["diffs"][0]
                p = res["ids"][gid].payload(gid)
                p.update({"broken": "correspondence GridModel.grideval vs splinetable::grideval / bsplinebasis", "disagreements": d, "no_failing_input_found": True})
                out.violation("C17:correspondence", "model and implementation disagree (%s); the property oracle found no failing input" % d[0][0], p)
        # coverage
        distinct, dist, dims, kinds, gp = set(), {}, {}, {}, 0
        for c in cases:
            dims[c.t.ndim] = dims.get(c.t.ndim, 0) + 1
            kinds[c.kind] = kinds.get(c.kind, 0) + 1
            n1 = 1
            for d, g in enumerate(c.grids):
                n1 *= len(g)
                for x in g:
                    rc = region_class(c.t, d, x)
                    dist[rc] = dist.get(rc, 0) + 1
            gp += n1
            nontrivial = c.t.ndim >= 2 or any(("*" in cl) or cl.rstrip("*") not in ("rand", "mid") for cls in c.classes for cl in cls)
            if nontrivial:
                distinct.add(c.key())
        samples = []
        for gid in list(res["ids"])[:3]:
            c = res["ids"][gid]
            nd = parse_nd(res["impl"].get(gid, {"R": {}})["R"].get("cpp"))
            samples.append({"table": c.t.describe(), "kind": c.kind, "grid_lengths": [len(g) for g in c.grids], "grid_axis0": [repr(x) for x in c.grids[0][:6]],
                            "impl_ranges": nd[1] if nd else "THROW", "impl_listed": len(nd[2]) if nd else 0, "impl_first": [(list(i), repr(v)) for i, v in nd[2][:3]] if nd else []})
        return {"evaluations": stats.get("evaluations", 0) , "distinct_nontrivial": len(distinct), "rule": self.RULE, "samples": samples,
                "traces_validated_against_impl": stats.get("traces_validated_against_impl", 0), "compared_values": stats.get("compared_values", 0),
                "grid_points_checked_against_pointwise": gp, "model_vs_impl_disagreeing_grids": ndiff, "disagreements": stats.get("diffs", [])[:5],
                "oracle_failures": stats.get("oracle_failures", 0), "search_volume_after_break": searched, "corpus_cases": stats.get("corpus_cases", 0),
                "grid_points_skipped_pointwise_NaN_D17": self.d17_skipped[0],
                "beyond_scope_points_on_last_knot": {"agree_with_pointwise": self.lastknot[0], "differ": self.lastknot[1], "with_nonzero_exact_value": self.lastknot[2],
                                                     "skipped_pointwise_NaN_D17": self.lastknot[3], "differ_samples": self.lastknot_samples},
                "input_distribution": {"tables_by_ndim": dims, "case_kinds": kinds, "abscissa_region_classes": dist},
                "remarks": ["an all-zero coefficient array makes ndsparse(0, ndim) throw (recorded, not flagged: the property speaks of values only)"]}

    def replay(self, path, out):
        p = json.load(open(path))
        if "table" not in p:
            print("replay file names a broken obligation, not an input: %s" % p.get("broken"))
            return {"evaluations": 1, "distinct_nontrivial": 2}
        c = case_from_payload(p)
        res = self.execute([c], "replay")
        stats = {}
        nd = self.analyse(res, out, stats)
        for gid, o in res["impl"].items():
            print("impl  R cpp:", " ".join(o["R"].get("cpp", [])[:40])); print("impl  P    :", " ".join(o.get("P", [])[:40]))
        for gid, o in res["model"].items():
            print("model R    :", " ".join(o["R"].get("model", [])[:40]))
        print("replay: %d disagreeing grids %s, %d oracle failures" % (nd, stats.get("diffs", ""), stats.get("oracle_failures", 0)))
        for sig, what, _ in out.violations:
            print("  oracle: [%s] %s" % (sig, what))
        return {"evaluations": 1, "distinct_nontrivial": 2, "rule": "replay of " + path, "samples": [p.get("grids_float")]}

def run(info, out):
    return C17().run(info, out)
