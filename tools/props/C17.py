"""C17 — grid evaluation agrees with pointwise evaluation.

Case file: a table (T/D/C lines as in evalfam.py) followed by grids  "G <id> <exact 0/1> <n0> <hex64>*n0 <n1> ...".
Model side: extract/gen/grid_driver (GridModel.v at binary64, and at Qc for grids flagged exact);
implementation side: harness/C17_harness.cpp (bsplinebasis directly, splinetable::grideval, splinetable_grideval,
pointwise ndsplineeval at every grid point)."""
import itertools
from fractions import Fraction
from evalfam import *
import common as _cm

PROPERTIES_FILE = "Properties_C17"
ASSUMPTIONS = [
    "theorems are about GridModel.v over an ordered field (exact arithmetic); the rounding gap to binary64 is measured on every run against exact rationals "
    "(|value - exact| <= K*2^-53*sum|terms|), not proved",
    "CHOLMOD (dense_to_sparse, transpose, triplet_to_sparse, ssmult, sparse_to_triplet) is modelled by its documented meaning (GridModel.v header); "
    "its summation order is unspecified, so sums are compared within the tolerance, never bitwise; the stored pattern is compared exactly",
    "integer index arithmetic modelled unbounded (slicemultiply's int cols/stride would wrap for >= 2^31 grid cells)",
    "a grid axis of more than 100 abscissae is given to the (list-based, quadratic) model in slices of 100 and the results re-indexed — grid evaluation is pointwise in "
    "the abscissae (C17_grideval_spec); the implementation always receives the whole grid in one call",
    "model tied to the code by this run's correspondence: basis matrices bitwise, ranges and stored index sets exactly, values within the measured bound",
]
TRUSTED_EXTRA = ["SuiteSparse/CHOLMOD as linked by the harness (external library; modelled by its documentation)",
                 "tools/props/C17.py exact-rational transcription of GridModel.grid_spec (cross-checked every run against the extracted Qc definitions)"]

STRICT_STYLES = ["uniform", "irregular", "irregular", "integer", "wild"]
GRID_CLASSES = ["knot", "knot+", "knot-", "mid", "mid", "lmargin", "rmargin", "rand", "rand", "full_lo", "full_hi", "last", "first", "below", "above", "upper_knot"]

def gen_coord17(rng, t, d, cls):
    if cls == "upper_knot":         # exactly on a knot at or above knots[naxes] (the last knot included): where the basis is left-continuous
        k = t.knots[d]
        return k[rng.rint(len(k) - t.orders[d] - 1, len(k) - 1)]
    return gen_coord(rng, t, d, cls)

# ------------------------------------------------------------------------------------------------
class Case:
    def __init__(self, table, grids, exact, classes, kind):
        self.t, self.grids, self.exact, self.classes, self.kind = table, grids, exact, classes, kind
        self.twin = None
    def gline(self, gid):
        return "G %s %d %s" % (gid, 1 if self.exact else 0, " ".join("%d %s" % (len(g), " ".join(hexd(x) for x in g)) for g in self.grids))
    def payload(self, gid="replay"):
        return {"table": self.t.to_json(), "grids": [[hexd(x) for x in g] for g in self.grids], "grids_float": [[repr(x) for x in g] for g in self.grids],
                "exact": self.exact, "classes": self.classes, "kind": self.kind, "twin": self.twin, "case_lines": self.t.lines() + [self.gline(gid)]}
    def key(self):
        return (tuple(self.t.orders), tuple(map(tuple, self.t.knots)), tuple(hexf(c) for c in self.t.coefs), tuple(tuple(hexd(x) for x in g) for g in self.grids))

def case_from_payload(p):
    tj = p["table"]
    t = Table(tj["orders"], [[dfrom(int(h, 16)) for h in k] for k in tj["knots"]], [ffrom(int(h, 16)) for h in tj["coefs"]], dfrom(int(tj["pad"], 16)))
    grids = [[dfrom(int(h, 16)) for h in g] for g in p["grids"]]
    c = Case(t, grids, bool(p.get("exact")), p.get("classes", []), p.get("kind", "corpus"))
    c.twin = p.get("twin")
    return c

def has_repeat(knots):
    return any(a == b for a, b in zip(knots, knots[1:]))

def gen_case(rng, small=False, allow_repeated=True):
    ndim = rng.choice([1, 1, 2, 2, 2, 3, 3, 4])
    kind = "strict"
    # repeated knots are routine since fix 07dbb30 (splineutil.c:bspline skips vanishing denominators): about a quarter of the
    # tables carry them, in any dimension, with multiplicities up to and beyond order+1 (discontinuous splines)
    if allow_repeated and rng.chance(0.27):
        kind = "repeated"
    maxc = 40 if small else 1500
    while True:
        orders = [rng.choice([0, 1, 1, 2, 2, 3, 3, 4]) for _ in range(ndim)]
        extras = [rng.choice([0, 0, 1, 2, 3, 5]) if ndim > 2 or small else rng.choice([0, 1, 2, 4, 7, 12]) for _ in range(ndim)]
        nco = 1
        for o, e in zip(orders, extras):
            nco *= o + 1 + e
        if nco <= maxc:
            break
    knots = []
    forced = rng.below(ndim)        # in a "repeated" table this dimension certainly has a repeated knot, the others with probability 1/2
    for d, (o, e) in enumerate(zip(orders, extras)):
        scale = 10.0 ** rng.rint(-2, 2)
        offset = (rng.unit() * 20 - 10) * scale
        if kind == "repeated" and (d == forced or rng.chance(0.5)):
            for _ in range(50):
                ks = gen_knots(rng, o, e, "repeated", scale, offset)
                if has_repeat(ks):
                    break
            if rng.chance(0.3):     # a knot of multiplicity order+1 or order+2 somewhere (full-multiplicity: the spline may jump there)
                m = o + 1 + rng.below(2)
                if m < len(ks) - 1:
                    j = rng.below(len(ks) - m)
                    lo = max(0, len(ks) - o - 1 - m + 1)
                    if rng.chance(0.5) and lo <= len(ks) - m - 1:
                        j = rng.rint(lo, len(ks) - m - 1)      # the run reaches knots[naxes] or lies above it: a jump where the basis is left-continuous (former D30)
                    for q in range(j + 1, j + m):
                        ks[q] = ks[j]
                    for q in range(1, len(ks)):
                        if ks[q] < ks[q - 1]:
                            ks[q] = ks[q - 1]
                    if not (ks[0] < ks[-1]):
                        ks[-1] = ks[0] + abs(ks[0]) + 1.0
        else:
            ks = gen_knots(rng, o, e, rng.choice(STRICT_STYLES), scale, offset)
            if has_repeat(ks):
                ks = gen_knots(rng, o, e, "uniform", scale, offset)
        knots.append(ks)
    if kind == "repeated" and not any(has_repeat(k) for k in knots):
        kind = "strict"
    # sparse coefficient array: many exact zeros
    style = rng.choice(["sparse", "sparse", "sparse", "verysparse", "dense", "single", "allzero" if rng.chance(0.25) else "sparse", "edges"])
    pz = {"sparse": rng.choice([0.3, 0.6, 0.85]), "verysparse": 0.97, "dense": 0.0, "single": 1.0, "allzero": 1.0, "edges": 0.5}[style]
    coefs = [0.0 if rng.chance(pz) else gen_coef(rng, rng.choice(["rand", "posneg"])) for _ in range(nco)]
    if style == "single":
        coefs[rng.below(nco)] = gen_coef(rng, "rand") or 1.0
    if style == "edges":      # zero slabs at the edges of the array: the reason grideval sets the ranges by hand
        naxes = [o + 1 + e for o, e in zip(orders, extras)]
        strides = [1] * ndim
        for i in range(ndim - 2, -1, -1):
            strides[i] = strides[i + 1] * naxes[i + 1]
        for p in range(nco):
            idx = [(p // strides[d]) % naxes[d] for d in range(ndim)]
            if any(i == naxes[d] - 1 for d, i in enumerate(idx)) or idx[0] == 0:
                coefs[p] = 0.0
    t = Table(orders, knots, coefs, rng.choice([math.nan, 1e300, 0.0]))
    # grids: arbitrary, unsorted, repeated abscissae, points outside the range, single-point axes
    budget = 30 if small else 400
    grids, classes = [], []
    per = max(1, int(round(budget ** (1.0 / ndim))))
    for d in range(ndim):
        n = 1 if rng.chance(0.15) else rng.rint(1, max(1, per))
        g, cl = [], []
        for _ in range(n):
            if g and rng.chance(0.15):
                j = rng.below(len(g)); g.append(g[j]); cl.append(cl[j] + "*")     # repeated abscissa
            else:
                c = rng.choice(GRID_CLASSES)
                g.append(gen_coord17(rng, t, d, c)); cl.append(c)
        if rng.chance(0.3):
            order = sorted(range(n), key=lambda i: g[i])
            g = [g[i] for i in order]; cl = [cl[i] for i in order]
        grids.append(g); classes.append(cl)
    return Case(t, grids, small, classes, kind + "/" + style)

# ------------------------------------------------------------------------------------------------
# round 3: classes a per-axis generator never produces — neighbouring dimensions that are (nearly) each other's twin, and grids at the
# two ends of the length scale. What may legitimately be shared between two dimensions (and what an implementation may be tempted to
# reuse) is decided by three things: order, knot vector, abscissa list; each is made equal / nearly equal / different here.
TWIN_KNOTS = ["identical", "last_differs", "last_differs", "all_but_first", "all_but_first", "prefix", "prefix", "suffix", "one_interior",
              "first_differs", "shifted", "unrelated"]
TWIN_GRIDS = ["same", "same", "same", "same", "one_element", "reordered", "same_length", "extended"]

def vary_knots(rng, k1, how):
    """a second knot vector of the same length standing in the stated relation to k1 (non-decreasing, first < last)"""
    n = len(k1)
    k2 = list(k1)
    span = k1[-1] - k1[0]
    f = rng.choice([0.5, 0.75, 1.5, 2.0, 0.3 + rng.unit() * 0.6, 1.1 + rng.unit()])
    if how == "identical":
        return k2, how
    if how == "last_differs":
        k2[-1] = k1[-1] + span * (0.05 + 0.5 * rng.unit())
    elif how == "first_differs":
        k2[0] = k1[0] - span * (0.05 + 0.5 * rng.unit())
    elif how in ("all_but_first", "prefix"):
        j = 1 if how == "all_but_first" else rng.rint(1, n - 1)        # the first j knots are shared
        for q in range(j, n):
            k2[q] = k1[j - 1] + (k1[q] - k1[j - 1]) * f
    elif how == "suffix":
        j = rng.rint(1, n - 1)                                        # the last j knots are shared
        for q in range(0, n - j):
            k2[q] = k1[n - j] - (k1[n - j] - k1[q]) * f
    elif how == "one_interior":
        q = rng.rint(1, n - 2) if n > 2 else 0
        lo, hi = k1[q - 1] if q > 0 else k1[0] - 1.0, k1[q + 1] if q + 1 < n else k1[-1] + 1.0
        v = lo + (hi - lo) * rng.unit()
        if n > 2 and lo < hi and v != k1[q]:
            k2[q] = v
        else:
            k2[-1] = k1[-1] + span * (0.05 + 0.5 * rng.unit()); how = "last_differs"
    elif how == "shifted":
        delta = span * rng.choice([0.01, 0.25, 1.0]) * rng.choice([-1, 1])
        k2 = [x + delta for x in k1]
    for q in range(1, n):
        if k2[q] < k2[q - 1]:
            k2[q] = k2[q - 1]
    if not (k2[0] < k2[-1]):
        k2[-1] = k2[0] + abs(k2[0]) + 1.0
    if k2 == list(k1):
        how = "identical"
    return k2, how

def common_prefix(a, b):
    n = 0
    while n < len(a) and n < len(b) and a[n] == b[n]:
        n += 1
    return n

def gen_axis_grid(rng, t, d, n):
    g, cl = [], []
    for _ in range(n):
        if g and rng.chance(0.15):
            j = rng.below(len(g)); g.append(g[j]); cl.append(cl[j] + "*")
        else:
            c = rng.choice(GRID_CLASSES)
            g.append(gen_coord17(rng, t, d, c)); cl.append(c)
    if rng.chance(0.3):
        order = sorted(range(n), key=lambda i: g[i])
        g = [g[i] for i in order]; cl = [cl[i] for i in order]
    return g, cl

def gen_coefs17(rng, orders, extras):
    nco = 1
    for o, e in zip(orders, extras):
        nco *= o + 1 + e
    style = rng.choice(["sparse", "sparse", "sparse", "verysparse", "dense", "dense", "single"])
    pz = {"sparse": rng.choice([0.3, 0.6, 0.85]), "verysparse": 0.97, "dense": 0.0, "single": 1.0}[style]
    coefs = [0.0 if rng.chance(pz) else gen_coef(rng, rng.choice(["rand", "posneg"])) for _ in range(nco)]
    if style == "single" or not any(coefs):
        coefs[rng.below(nco)] = gen_coef(rng, "rand") or 1.0
    return coefs, style

def gen_twin_case(rng, small=False, force_knots=None, force_grid=None):
    """2..4 dims of which 2 (sometimes 3) neighbouring ones have the same order and knot count; their knot vectors and their abscissa
    lists stand in a drawn relation (TWIN_KNOTS x TWIN_GRIDS)"""
    ndim = rng.choice([2, 2, 2, 3, 3, 4])
    run = 2 if ndim == 2 or rng.chance(0.75) else 3
    p = rng.below(ndim - run + 1)
    maxc = 40 if small else 1500
    while True:
        orders = [rng.choice([0, 1, 1, 2, 2, 3, 3, 4]) for _ in range(ndim)]
        extras = [rng.choice([0, 0, 1, 2, 3, 5]) if ndim > 2 or small else rng.choice([0, 1, 2, 4, 7, 12]) for _ in range(ndim)]
        for q in range(p + 1, p + run):
            orders[q], extras[q] = orders[p], extras[p]
        nco = 1
        for o, e in zip(orders, extras):
            nco *= o + 1 + e
        if nco <= maxc:
            break
    knots, rel = [], []
    for d, (o, e) in enumerate(zip(orders, extras)):
        scale = 10.0 ** rng.rint(-2, 2)
        offset = (rng.unit() * 20 - 10) * scale
        if p < d < p + run:
            how = force_knots or rng.choice(TWIN_KNOTS)
            if how == "unrelated":
                style = rng.choice(["integer", "integer", "uniform", "irregular"])
                ks = gen_knots(rng, o, e, style, 1.0 if style == "integer" else scale, float(rng.rint(-3, 3)) if style == "integer" else offset)
            else:
                ks, how = vary_knots(rng, knots[d - 1], how)
            rel.append(how)
        else:
            style = rng.choice(STRICT_STYLES + ["integer", "repeated"])
            ks = gen_knots(rng, o, e, style, 1.0 if style == "integer" and rng.chance(0.5) else scale, float(rng.rint(-3, 3)) if style == "integer" else offset)
        knots.append(ks)
    coefs, style = gen_coefs17(rng, orders, extras)
    t = Table(orders, knots, coefs, rng.choice([math.nan, 1e300, 0.0]))
    budget = 30 if small else 400
    per = max(1, int(round(budget ** (1.0 / ndim))))
    grids, classes, grel = [], [], []
    for d in range(ndim):
        if p < d < p + run:
            how = force_grid or rng.choice(TWIN_GRIDS)
            g0, c0 = grids[d - 1], classes[d - 1]
            if how == "reordered" and len(set(g0)) < 2:
                how = "same"
            if how == "same":
                g, cl = list(g0), list(c0)
            elif how == "one_element":
                g, cl = list(g0), list(c0)
                j = rng.below(len(g))
                for _ in range(20):
                    c = rng.choice(GRID_CLASSES)
                    x = gen_coord17(rng, t, d, c)
                    if x != g[j]:
                        g[j], cl[j] = x, c
                        break
            elif how == "reordered":
                order = list(range(len(g0)))
                if rng.chance(0.5):
                    order.reverse()
                else:
                    while order == list(range(len(g0))) or [g0[i] for i in order] == g0:
                        rng.shuffle(order)
                g, cl = [g0[i] for i in order], [c0[i] for i in order]
            elif how == "same_length":
                g, cl = gen_axis_grid(rng, t, d, len(g0))
            else:       # extended: the previous list plus one more abscissa
                c = rng.choice(GRID_CLASSES)
                g, cl = list(g0) + [gen_coord17(rng, t, d, c)], list(c0) + [c]
            grel.append(how)
        else:
            n = 1 if rng.chance(0.15) else rng.rint(1, max(1, per))
            g, cl = gen_axis_grid(rng, t, d, n)
        grids.append(g); classes.append(cl)
    c = Case(t, grids, small, classes, "twin:%s/%s" % ("+".join(rel), "+".join(grel)))
    c.twin = {"dims": [p, p + run - 1], "knots": rel, "grids": grel,
              "shared_leading_knots": [common_prefix(knots[q - 1], knots[q]) for q in range(p + 1, p + run)], "nknots": len(knots[p])}
    return c

def gen_single_point_case(rng, small=False):
    """every axis of the grid has exactly one point"""
    c = gen_case(rng, small=small)
    grids, classes = [], []
    for d in range(c.t.ndim):
        cl = rng.choice(GRID_CLASSES)
        grids.append([gen_coord17(rng, c.t, d, cl)]); classes.append([cl])
    return Case(c.t, grids, small, classes, "single-point/" + c.kind)

def gen_nodal_grid_case(rng, small=False):
    """structured basis matrices: on at least one axis the grid has exactly as many points as the axis has coefficients and the
    points sit where few basis functions are alive — the Greville / nodal points of an order-1 axis (each point sees one spline:
    a diagonal basis matrix whose end values are not 1 when the end points lie in the margins), one point per knot span, points
    exactly on consecutive knots; sorted (and sometimes reversed)"""
    c = gen_case(rng, small=small, allow_repeated=False)
    t = c.t
    grids, classes = [], []
    pick = rng.below(t.ndim)
    for d in range(t.ndim):
        k, o = t.knots[d], t.orders[d]
        na = len(k) - o - 1
        if d == pick or rng.chance(0.4):
            how = rng.choice(["nodes", "nodes-margins", "spans", "knots"])
            if how in ("nodes", "nodes-margins") :
                g = [k[j + (o + 1) // 2] if o % 2 == 1 else 0.5 * (k[j + o // 2] + k[j + o // 2 + 1]) for j in range(na)]   # node of spline j
                if how == "nodes-margins" and na >= 2:
                    g[0] = k[0] + 0.25 * (k[o] - k[0]) if k[o] > k[0] else g[0]
                    g[-1] = k[-1] - 0.25 * (k[-1] - k[na]) if k[-1] > k[na] else g[-1]
            elif how == "spans":
                g = [0.5 * (k[j] + k[j + 1]) for j in range(min(na, len(k) - 1))]
            else:
                j0 = rng.below(max(1, len(k) - na))
                g = [k[j0 + j] for j in range(na)]
            g = [x for x in g]
            if rng.chance(0.2):
                g = g[::-1]
            grids.append(g); classes.append([how] * len(g))
        else:
            g, cl = gen_axis_grid(rng, t, d, rng.rint(1, 6))
            grids.append(g); classes.append(cl)
    return Case(t, grids, small, classes, "nodal-grid/" + c.kind)

def gen_long_grid_case(rng, npts):
    """one axis with hundreds of abscissae (every knot, its float neighbours, a fine sweep of the range, points outside), the others short"""
    ndim = rng.choice([1, 1, 2, 2, 3])
    d0 = rng.below(ndim)
    orders = [rng.choice([0, 1, 2, 3, 4]) for _ in range(ndim)]
    extras = [rng.choice([0, 1, 2, 4]) for _ in range(ndim)]
    extras[d0] = rng.choice([0, 3, 8, 20])
    knots = []
    for d, (o, e) in enumerate(zip(orders, extras)):
        scale = 10.0 ** rng.rint(-2, 2)
        style = rng.choice(STRICT_STYLES + ["repeated"])
        knots.append(gen_knots(rng, o, e, style, scale, (rng.unit() * 20 - 10) * scale))
    coefs, style = gen_coefs17(rng, orders, extras)
    t = Table(orders, knots, coefs, rng.choice([math.nan, 1e300, 0.0]))
    grids, classes = [], []
    for d in range(ndim):
        if d == d0:
            k = knots[d]
            g = list(k) + [math.nextafter(x, math.inf) for x in k] + [math.nextafter(x, -math.inf) for x in k]
            cl = ["knot"] * len(k) + ["knot+"] * len(k) + ["knot-"] * len(k)
            g += [gen_coord17(rng, t, d, "below"), gen_coord17(rng, t, d, "above")]; cl += ["below", "above"]
            g, cl = g[:npts], cl[:npts]
            m = npts - len(g)
            lo, hi = k[0], k[-1]
            g += [lo + (hi - lo) * (i + rng.unit()) / max(1, m) for i in range(m)]; cl += ["rand"] * m
            if rng.chance(0.5):
                order = list(range(len(g))); rng.shuffle(order)
                g = [g[i] for i in order]; cl = [cl[i] for i in order]
        else:
            g, cl = gen_axis_grid(rng, t, d, rng.rint(1, 2))
        grids.append(g); classes.append(cl)
    return Case(t, grids, False, classes, "long-grid(%d)/%s" % (npts, style))

# ------------------------------------------------------------------------------------------------
# exact specification: Cox-de Boor (0/0 := 0) with the one-sided convention of the evaluation properties (BSpline.side_of: right-continuous
# below knots[naxes], naxes = nknots-order-1, left-continuous from there upwards), sum over all coefficients — GridModel.grid_spec / grid_abs
def basis_side(knots, order, x):
    k = [Fraction(v) for v in knots]
    x = Fraction(x)
    n = len(k)
    if x < k[n - order - 1]:
        cur = [Fraction(1) if (k[i] <= x < k[i + 1]) else Fraction(0) for i in range(n - 1)]
    else:
        cur = [Fraction(1) if (k[i] < x <= k[i + 1]) else Fraction(0) for i in range(n - 1)]
    for p in range(1, order + 1):
        nxt = []
        for i in range(n - p - 1):
            d1, d2 = k[i + p] - k[i], k[i + p + 1] - k[i + 1]
            a = (x - k[i]) / d1 * cur[i] if d1 != 0 else Fraction(0)
            b = (k[i + p + 1] - x) / d2 * cur[i + 1] if d2 != 0 else Fraction(0)
            nxt.append(a + b)
        cur = nxt
    return {i: v for i, v in enumerate(cur) if v != 0}

def grid_exact(case):
    """dict: grid multi-index -> (value, sum|terms|) for every grid point with a nonzero term; others are (0,0)"""
    t = case.t
    nd = t.ndim
    strides = [1] * nd
    for i in range(nd - 2, -1, -1):
        strides[i] = strides[i + 1] * t.naxes[i + 1]
    size = t.naxes[0] * strides[0]
    cur = {}
    for p in range(size):
        c = t.coefs[p] if p < len(t.coefs) else 0.0
        if c != 0:
            idx = tuple((p // strides[d]) % t.naxes[d] for d in range(nd))
            cur[idx] = (Fraction(c), abs(Fraction(c)))
    for d in range(nd):
        rows = [basis_side(t.knots[d], t.orders[d], x) if math.isfinite(x) else {} for x in case.grids[d]]
        bycol = {}
        for r, row in enumerate(rows):
            for i, v in row.items():
                bycol.setdefault(i, []).append((r, v))
        nxt = {}
        for idx, (v, a) in cur.items():
            for r, b in bycol.get(idx[d], ()):
                j = idx[:d] + (r,) + idx[d + 1:]
                ov, oa = nxt.get(j, (0, 0))
                nxt[j] = (ov + v * b, oa + a * abs(b))
        cur = nxt
    return cur

def parse_q(s):
    num, den = s.split("/")
    neg = num.startswith("-")
    n = int(num.lstrip("-"), 16)
    return Fraction(-n if neg else n, int(den, 16))

def K_of(t):
    k = 16 * sum(o + 2 for o in t.orders)
    nterms = 1
    for o in t.orders:
        nterms *= o + 1
    return k + 2 * nterms

ETA = Fraction(1, 2 ** 1000)
def within(val, exact, absum, t, u=Fraction(1, 2 ** 53)):
    if val != val or val in (math.inf, -math.inf):
        return False
    return abs(Fraction(val) - exact) <= K_of(t) * u * absum + ETA * (1 + absum)

# ------------------------------------------------------------------------------------------------
def parse_records(text):
    """-> {gid: {"B": {dim: (nrow, ncol, entries-string)}, "R": {who: str}, "P": [..], "X": [..], "Y": [..]}}"""
    res = {}
    for line in text.split("\n"):
        tk = line.split()
        if len(tk) < 2:
            continue
        r = res.setdefault(tk[1], {"B": {}, "R": {}})
        if tk[0] == "B":
            r["B"][int(tk[2])] = (int(tk[3]), int(tk[4]), tk[5:])
        elif tk[0] == "R":
            r["R"][tk[2]] = tk[3:]
        elif tk[0] in ("P", "X", "Y"):
            r[tk[0]] = tk[2:]
    return res

def parse_nd(tokens):
    """-> None for THROW, else (ndim, ranges, [(idx tuple, float)], duplicates?)"""
    if not tokens or tokens[0] == "THROW":
        return None
    nd = int(tokens[0])
    ranges = tuple(int(x) for x in tokens[1].split("=")[1].split(","))
    ents = []
    for e in tokens[3:]:
        i, v = e.split(":")
        ents.append((tuple(int(x) for x in i.split(",")), dfrom(int(v, 16))))
    return nd, ranges, ents

def nan_eq_tokens(a, b):
    if a == b:
        return True
    if len(a) != len(b):
        return False
    for x, y in zip(a, b):
        if x != y:
            if ":" not in x or ":" not in y:
                return False
            ix, vx = x.split(":"); iy, vy = y.split(":")
            if ix != iy or not (is_nan_hex(vx) and is_nan_hex(vy)):
                return False
    return True

_JOB = {}
def _analyse_job(gid):
    me, res, model = _JOB["args"]
    return me.analyse_one(gid, res, model)

MODEL_CHUNK = 100
def merge_chunks(mod, gid, d0):
    """the model's records for the slices gid.k0, gid.k1, ... of a long axis d0, re-indexed into one record for gid"""
    parts, q = [], 0
    while "%s.k%d" % (gid, q) in mod:
        parts.append(mod.pop("%s.k%d" % (gid, q))); q += 1
    if not parts or any(d0 not in pt["B"] or "model" not in pt["R"] for pt in parts):
        return
    rec = {"B": {d: b for d, b in parts[0]["B"].items() if d != d0}, "R": {}}
    off, ents, ncol = 0, [], parts[0]["B"][d0][1]
    for pt in parts:
        nr, nc, es = pt["B"][d0]
        for e in es:
            rc, v = e.split(":"); r, cc = rc.split(",")
            ents.append("%d,%s:%s" % (int(r) + off, cc, v))
        off += nr
    rec["B"][d0] = (off, ncol, ents)
    toks = [pt["R"]["model"] for pt in parts]
    if any(t[0] == "THROW" for t in toks):
        rec["R"]["model"] = ["THROW"]
    else:
        off, allents, nd, ranges = 0, [], toks[0][0], None
        for t in toks:
            ranges = [int(x) for x in t[1].split("=")[1].split(",")]
            for e in t[3:]:
                i, v = e.split(":")
                idx = [int(x) for x in i.split(",")]
                idx[d0] += off
                allents.append((tuple(idx), v))
            off += ranges[d0]
        ranges[d0] = off
        allents.sort()
        rec["R"]["model"] = [nd, "ranges=" + ",".join(str(r) for r in ranges), "n=%d" % len(allents)] + ["%s:%s" % (",".join(str(x) for x in i), v) for i, v in allents]
    mod[gid] = rec

class C17:
    PROP = "C17"
    RULE = ("tables of 1..4 dims, orders 0..4 mixed, knot vectors uniform/irregular/integer/wild spacing and (about a quarter of the tables) with repeated knots in one or "
            "more dimensions, multiplicities up to order+2, "
            "coefficient arrays with 30-100% exact zeros (sparse, very sparse, single entry, zero edge slabs, all zero) x grids whose abscissae are drawn per axis from "
            "{every knot, both float neighbours, midpoints, both margins, ends of full support, first/last knot, beyond both ends}, unsorted, with repeated abscissae and "
            "single-point axes. Round 3 classes: TWIN / NEAR-TWIN neighbouring dimensions (2 or 3 neighbours with the same order and knot count; knot vectors identical / "
            "differing in the last knot only / in all but the first knot / sharing a prefix or a suffix of drawn length / differing in one interior knot / in the first knot "
            "only / shifted / unrelated; abscissa lists of the neighbours the same list / differing in one element / the same elements in another order / the same length / "
            "one list a prefix of the other — every knot relation at least once with the same list); grids with exactly one point on every axis; LONG grids (one axis of "
            "200..1500 abscissae, 3000 in the thorough tier: every knot, both float neighbours, a sweep of the range, points outside; given to the model in slices of 100, "
            "to the implementation in one call); non-trivial = at least two dimensions or an axis with a repeated/out-of-range/on-knot abscissa; distinct by (orders, knots, coefficient bits, grid bits)")

    def __init__(self):
        self.harness = None
        self.model = None
        self.d17_skipped = [0]
        self.lastknot = [0, 0, 0, 0]   # grid points with a coordinate on the last knot: agree with pointwise / differ / with a nonzero exact value / pointwise NaN (C01 residual)
        self.lastknot_samples = []
    def build(self):
        if self.harness is None:
            self.harness = build_harness("C17_harness", ["C17_harness.cpp"], flavour="faithful", fitter=True)
            self.model = build_extracted("grid")

    def execute(self, cases, tag, model=True):
        self.build()
        wd = build_dir("cases-C17-%d" % os.getpid())
        shards = [[] for _ in range(NCPU)]
        mshards = [[] for _ in range(NCPU)]
        ids = {}
        chunked = {}
        for ci, c in enumerate(cases):
            gid = "%s%d" % (tag, ci)
            ids[gid] = c
            shards[ci % NCPU] += c.t.lines() + [c.gline(gid)]
            # the list-based model is quadratic in the length of an axis: a long axis goes to the model in slices of MODEL_CHUNK abscissae
            # (grid evaluation is pointwise in the abscissae — C17_grideval_spec — so the slices' results, re-indexed, are the model's
            # result for the whole grid); the implementation always receives the whole grid in one call
            d0 = max(range(c.t.ndim), key=lambda d: len(c.grids[d]))
            if len(c.grids[d0]) > MODEL_CHUNK and not c.exact:
                g = c.grids[d0]
                gl = []
                for q, a in enumerate(range(0, len(g), MODEL_CHUNK)):
                    sub = Case(c.t, c.grids[:d0] + [g[a:a + MODEL_CHUNK]] + c.grids[d0 + 1:], False, [], c.kind)
                    gl.append(sub.gline("%s.k%d" % (gid, q)))
                chunked[gid] = d0
                mshards[ci % NCPU] += c.t.lines() + gl
            else:
                mshards[ci % NCPU] += c.t.lines() + [c.gline(gid)]
        files, mfiles = [], []
        for s, lines in enumerate(shards):
            if lines:
                f = os.path.join(wd, "%s_%d.cases" % (tag, s))
                open(f, "w").write("\n".join(lines) + "\n")
                files.append((f, sum(1 for l in lines if l.startswith("G "))))
                fm_ = os.path.join(wd, "%s_%d.mcases" % (tag, s))
                open(fm_, "w").write("\n".join(mshards[s]) + "\n")
                mfiles.append((fm_, 0))
        impl, mod, crashes = {}, {}, []
        from concurrent.futures import ThreadPoolExecutor
        def run_i(fn):
            f, n = fn
            outs, skip = {}, 0
            cr = []
            while skip < n:
                p = subprocess.run([self.harness, f, str(skip)], stdout=subprocess.PIPE, stderr=subprocess.PIPE, text=True, timeout=1800,
                                   env=dict(os.environ, ASAN_OPTIONS="detect_leaks=0"))
                outs.update(parse_records(p.stdout))
                if p.returncode == 0:
                    break
                ann = [l[1:] for l in p.stderr.split("\n") if l.startswith("@")]
                if not ann:
                    cr.append(("<startup>", p.stderr[-2000:])); break
                cr.append((ann[-1], "exit=%d %s" % (p.returncode, "\n".join(l for l in p.stderr.split("\n") if not l.startswith("@"))[-2000:])))
                outs.pop(ann[-1], None)
                skip += len(ann)
            return outs, cr
        def run_m(fn):
            p = _cm.run([self.model, fn[0]], timeout=3600)
            if p.returncode != 0:
                raise BuildError("grid model driver failed: " + p.stderr[-2000:])
            return parse_records(p.stdout)
        with ThreadPoolExecutor(max_workers=NCPU) as ex:
            fi = [ex.submit(run_i, f) for f in files]
            fm = [ex.submit(run_m, f) for f in mfiles] if model else []
            for fu in fi:
                o, cr = fu.result(); impl.update(o); crashes += cr
            for fu in fm:
                mod.update(fu.result())
        if model:
            for gid, d0 in chunked.items():
                merge_chunks(mod, gid, d0)
        shutil.rmtree(wd, ignore_errors=True)
        return {"ids": ids, "impl": impl, "model": mod, "crashes": crashes}

    # --------------------------------------------------------------------------------------------
    def oracle(self, c, iout, exact):
        """the property statement evaluated on the implementation's output. Returns list of (signature, message)."""
        fails = []
        t = c.t
        lens = tuple(len(g) for g in c.grids)
        for who in ("cpp", "c"):
            entry = "grideval" if who == "cpp" else "splinetable_grideval"
            nd = parse_nd(iout["R"].get(who))
            if nd is None:
                if all(x == 0 for x in t.coefs):
                    continue        # remark: ndsparse(0, ndim) throws for an all-zero coefficient array; the property speaks of values only
                fails.append(("C17:%s:throws" % entry, "%s failed (%s) on a table with nonzero coefficients" % (entry, " ".join(iout["R"].get(who) or []))))
                continue
            ndim, ranges, ents = nd
            if ranges != lens or ndim != t.ndim:
                fails.append(("C17:%s:ranges" % entry, "index ranges %s differ from the grid lengths %s" % (ranges, lens)))
                continue
            listed = {}
            bad = False
            for idx, v in ents:
                if idx in listed:
                    fails.append(("C17:%s:duplicate-index" % entry, "grid index %s listed twice" % (idx,))); bad = True; break
                if len(idx) != t.ndim or any(not (0 <= i < r) for i, r in zip(idx, ranges)):
                    fails.append(("C17:%s:index-out-of-range" % entry, "listed index %s outside the ranges %s" % (idx, ranges))); bad = True; break
                listed[idx] = v
            if bad:
                continue
            pw = iout.get("P", [])
            stats_d17 = self.d17_skipped
            rep = any(has_repeat(k) and o >= 1 for k, o in zip(t.knots, t.orders))
            for n, g in enumerate(itertools.product(*[range(l) for l in lens])):
                xs = [c.grids[d][g[d]] for d in range(t.ndim)]
                if not all(t.knots[d][0] < xs[d] < t.knots[d][-1] for d in range(t.ndim)):
                    # the property speaks of points strictly inside the knot range. Beyond it (measured, never flagged): where the lookup
                    # still succeeds — some x_d exactly ON THE LAST KNOT — C17_agrees_pointwise says the two agree as well (since fix
                    # F30_1 the basis row there is the left limit; it used to be identically zero)
                    if who == "cpp" and n < len(pw) and pw[n] != "-" and all(t.knots[d][0] < xs[d] <= t.knots[d][-1] for d in range(t.ndim)):
                        pd0 = dfrom(int(pw[n].split("/")[0], 16))
                        ev0, ea0 = exact.get(g, (Fraction(0), Fraction(0)))
                        v0 = listed.get(g, 0.0)
                        ok0 = (v0 == v0) and math.isfinite(v0) and math.isfinite(pd0) and abs(Fraction(v0) - Fraction(pd0)) <= 2 * K_of(t) * Fraction(1, 2 ** 53) * ea0 + ETA * (1 + ea0)
                        if pd0 != pd0 and any(xs[d] == t.knots[d][t.naxes[d]] and t.knots[d][t.orders[d]] == t.knots[d][t.naxes[d]] for d in range(t.ndim)):
                            self.lastknot[3] += 1       # pointwise NaN: the fully supported range is the single point x_d (C01's residual), as in scope
                        else:
                            self.lastknot[0 if ok0 else 1] += 1
                            if not ok0 and len(self.lastknot_samples) < 3:
                                self.lastknot_samples.append({"table": t.describe(), "x": [repr(x) for x in xs], "grid": repr(v0), "pointwise": repr(pd0), "exact": str(ev0)})
                            if ev0 != 0:
                                self.lastknot[2] += 1
                    continue
                if n >= len(pw) or pw[n] == "-":
                    continue            # lookup failure strictly inside the range is C04's business
                pd, pf = [dfrom(int(h, 16)) for h in pw[n].split("/")]
                ev, ea = exact.get(g, (Fraction(0), Fraction(0)))
                v = listed.get(g, 0.0)
                if pd != pd and any(xs[d] == t.knots[d][t.naxes[d]] and t.knots[d][t.orders[d]] == t.knots[d][t.naxes[d]] for d in range(t.ndim)):
                    stats_d17[0] += 1
                    continue            # pointwise NaN where the fully supported range is the single point x: the residual of finding D17 (C01), not C17
                okd = (v == v) and math.isfinite(v) and math.isfinite(pd) and abs(Fraction(v) - Fraction(pd)) <= 2 * K_of(t) * Fraction(1, 2 ** 53) * ea + ETA * (1 + ea)
                okf = (v == v) and math.isfinite(v) and math.isfinite(pf) and abs(Fraction(v) - Fraction(pf)) <= 2 * K_of(t) * Fraction(1, 2 ** 24) * ea + Fraction(1, 2 ** 140) * (1 + ea)
                if okd and okf:
                    continue
                if v != v and rep:
                    sig, why = "C17:%s:repeated-knot->NaN" % entry, "NaN"
                elif any(xs[d] >= t.knots[d][t.naxes[d]] and sum(1 for kk in t.knots[d] if kk == xs[d]) >= t.orders[d] + 1 for d in range(t.ndim)):
                    # a knot of multiplicity >= order+1 at or above knots[naxes], strictly inside the range: the spline is discontinuous
                    # there; pointwise evaluation is left-continuous from knots[naxes] upwards (C01) and so is, since fix F30_1, the grid
                    # basis. A mismatch here is the regression of the former finding D30 (status fixed: reported as a violation).
                    sig, why = "C17:%s:one-sided-limits-differ-at-discontinuity" % entry, ("%r" % v if g in listed else "not listed (value zero)")
                elif g not in listed:
                    sig, why = "C17:%s:unlisted-nonzero" % entry, "not listed (value zero)"
                else:
                    sig, why = "C17:%s:value-mismatch" % entry, "%r" % v
                msg = ("grid point %s = %s (strictly inside the knot range): grid evaluation gives %s, pointwise evaluation %r (double) / %r (float), exact %s, sum|terms| %s"
                       % (g, [repr(x) for x in xs], why, pd, pf, float(ev), float(ea)))
                fails.append((sig, msg))
                break
        if iout["R"].get("cpp") != iout["R"].get("c") and not nan_eq_tokens(iout["R"].get("cpp") or [], iout["R"].get("c") or []):
            if not (iout["R"].get("cpp", ["THROW"])[0] == "THROW" and iout["R"].get("c", ["THROW"])[0] == "THROW"):
                fails.append(("C17:splinetable_grideval:differs-from-member", "C wrapper result differs from splinetable::grideval"))
        return fails

    def correspond(self, c, iout, mout, exact):
        """model vs implementation. Returns list of (what, impl, model)."""
        diffs = []
        t = c.t
        for d in range(t.ndim):
            bi, bm = iout["B"].get(d), mout["B"].get(d)
            if bi is None or bm is None or bi[0] != bm[0] or bi[1] != bm[1] or not nan_eq_tokens(bi[2], bm[2]):
                diffs.append(("basis matrix dim %d (bitwise)" % d, bi, bm))
        ri, rm = parse_nd(iout["R"].get("cpp")), parse_nd(mout["R"].get("model"))
        if (ri is None) != (rm is None):
            diffs.append(("throw/no throw", iout["R"].get("cpp"), mout["R"].get("model")))
        elif ri is not None:
            if ri[1] != rm[1]:
                diffs.append(("ranges", ri[1], rm[1]))
            si, sm = [e[0] for e in ri[2]], [e[0] for e in rm[2]]
            if si != sm:
                only_i = [x for x in si if x not in set(sm)][:4]; only_m = [x for x in sm if x not in set(si)][:4]
                diffs.append(("stored index set", "n=%d only-impl=%s" % (len(si), only_i), "n=%d only-model=%s" % (len(sm), only_m)))
            else:
                finite_grid = all(math.isfinite(x) for g in c.grids for x in g)
                for (idx, vi), (_, vm) in zip(ri[2], rm[2]):
                    ev, ea = exact.get(idx, (Fraction(0), Fraction(0)))
                    if finite_grid and not (within(vi, ev, ea, t) and within(vm, ev, ea, t)):
                        diffs.append(("value at %s outside K*u*sum|terms| of the exact value %s (sum|terms| %s)" % (idx, float(ev), float(ea)), vi, vm)); break
        # executed instance of the theorem on exact rationals + cross-check of the Python transcription
        if c.exact and "X" in mout:
            lens = [len(g) for g in c.grids]
            for n, g in enumerate(itertools.product(*[range(l) for l in lens])):
                xs, ys = mout["X"][n], mout["Y"][n]
                sv, sa = [parse_q(q) for q in xs.split("|")]
                if ys != "THROW" and parse_q(ys) != sv:
                    diffs.append(("Qc: nd_get(grideval) != grid_spec at %s" % (g,), ys, xs)); break
                ev, ea = exact.get(g, (Fraction(0), Fraction(0)))
                if (ev, ea) != (sv, sa):
                    diffs.append(("python exact spec != extracted grid_spec/grid_abs at %s" % (g,), (str(ev), str(ea)), xs)); break
        return diffs

    # --------------------------------------------------------------------------------------------
    def analyse_one(self, gid, res, model):
        """oracle + correspondence for one grid (runs in a forked worker: the counters are returned, not shared)"""
        c = res["ids"][gid]
        iout = res["impl"].get(gid)
        if iout is None or "cpp" not in iout["R"]:
            return None
        self.d17_skipped, self.lastknot, self.lastknot_samples = [0], [0, 0, 0, 0], []
        exact = grid_exact(c)
        fails = self.oracle(c, iout, exact)
        diffs, ncmp = None, 0
        if model and gid in res["model"]:
            diffs = self.correspond(c, iout, res["model"][gid], exact)
            nd = parse_nd(iout["R"].get("cpp"))
            ncmp = (len(nd[2]) if nd else 0) + sum(len(b[2]) for b in iout["B"].values())
            diffs = [(w, str(a)[:300], str(b)[:300]) for w, a, b in diffs[:3]]
        return gid, fails, diffs, ncmp, (self.d17_skipped[0], list(self.lastknot), list(self.lastknot_samples))

    def analyse(self, res, out, stats, model=True):
        ndiff = 0
        gids = list(res["ids"])
        _JOB["args"] = (self, res, model)
        saved = (self.d17_skipped, self.lastknot, self.lastknot_samples)
        if len(gids) >= 16:
            import multiprocessing as mp
            with mp.get_context("fork").Pool(NCPU) as pool:
                results = pool.map(_analyse_job, gids, chunksize=4)
        else:
            results = [_analyse_job(g) for g in gids]
        self.d17_skipped, self.lastknot, self.lastknot_samples = saved
        for r in results:
            if r is None:
                continue
            gid, fails, diffs, ncmp, (d17, lk, lks) = r
            c = res["ids"][gid]
            iout = res["impl"][gid]
            self.d17_skipped[0] += d17
            for i in range(4):
                self.lastknot[i] += lk[i]
            self.lastknot_samples += lks[:max(0, 3 - len(self.lastknot_samples))]
            stats["evaluations"] = stats.get("evaluations", 0) + 1
            for sig, msg in fails:
                p = c.payload(gid)
                p.update({"impl_output": {k: (v if k != "B" else {str(d): list(b) for d, b in v.items()}) for k, v in iout.items()},
                          "model_output": res["model"].get(gid, {}).get("R"), "oracle_verdict": msg})
                out.violation(sig, msg, p)
                stats["oracle_failures"] = stats.get("oracle_failures", 0) + 1
            if diffs is not None:
                stats["traces_validated_against_impl"] = stats.get("traces_validated_against_impl", 0) + 1
                stats["compared_values"] = stats.get("compared_values", 0) + ncmp
                if diffs:
                    ndiff += 1
                    stats.setdefault("diffs", []).append((gid, diffs))
        for gid, detail in res["crashes"]:
            c = res["ids"].get(gid)
            p = c.payload(gid) if c else {}
            p["crash"] = detail
            m = re.search(r"(SUMMARY: \w+: [\w-]+) (\S+)", detail)
            loc = (m.group(1).split(": ")[-1] + "@" + os.path.basename(m.group(2))) if m else "unknown"
            out.violation("C17:crash:" + loc, "grid evaluation crashed: " + detail.strip().split("\n")[-1][:200], p)
        return ndiff

    def gen(self, rng, n, tier="quick"):
        cases = []
        for i in range(n):
            cases.append(gen_case(rng, small=(i % 5 == 0)))
        # round 3: twin / near-twin neighbouring dimensions (every knot relation x the same abscissa list at least once, then drawn),
        # single-point grids, long grids
        r3 = rng.fork("round3")
        ntwin = max(len(set(TWIN_KNOTS)) + 8, (2 * n) // 5)
        rels = sorted(set(TWIN_KNOTS))
        for i in range(ntwin):
            small = (i % 5 == 0)
            if i < len(rels):
                cases.append(gen_twin_case(r3, small=small, force_knots=rels[i], force_grid="same"))
            else:
                cases.append(gen_twin_case(r3, small=small))
        for i in range(max(6, n // 25)):
            cases.append(gen_single_point_case(r3, small=(i % 2 == 0)))
        r4 = rng.fork("round4")
        for i in range(max(12, n // 12)):
            cases.append(gen_nodal_grid_case(r4, small=(i % 3 != 2)))
        for i in range(max(4, n // 40)):
            cases.append(gen_long_grid_case(r3, r3.choice([200, 400, 800, 1500]) if tier == "quick" else r3.choice([200, 400, 800, 1500, 3000])))
        return cases

    # --------------------------------------------------------------------------------------------
    # grids of 2^31 .. 2^32 and more points. The statement is about the listed values and their index ranges; a grid whose abscissae
    # lie, all but a handful per axis, beyond the last knot has the very values of the small grid made of that handful, at the
    # corresponding indices, and nothing else: an entry is the specification value at the coordinates of its own grid point
    # (C17_grideval_spec), and that value is zero as soon as one coordinate lies beyond the last knot (C17_beyond_last_knot_is_zero):
    # C17_huge_grid_is_small_grid_reindexed.
    # So the result of the huge grid must be the result of the small one re-indexed — compared bitwise, C++ member and C wrapper.
    HUGE_SHAPES = {2: [(65536, 32768), (32768, 65536), (65536, 32767), (65536, 65536), (65536, 49152), (46341, 46342)],
                   3: [(2048, 2048, 512), (1024, 2048, 1024), (1291, 1291, 1290), (2048, 2048, 1024), (4096, 1024, 767)],
                   4: [(256, 256, 256, 128), (216, 216, 216, 216), (256, 256, 256, 256), (128, 256, 512, 128)]}
    def check_huge(self, res, rng, count, out, stats):
        self.build()
        pool = [gid for gid, c in res["ids"].items() if 2 <= c.t.ndim <= 4 and gid in res["impl"] and parse_nd(res["impl"][gid]["R"].get("cpp"))
                and all(1 <= len(g) <= 40 for g in c.grids) and len(c.t.coefs) <= 5000]
        rng.shuffle(pool)
        wd = build_dir("cases-C17-huge-%d" % os.getpid())
        jobs = []
        for gid in pool[:count]:
            c = res["ids"][gid]
            lens = list(rng.choice(self.HUGE_SHAPES[c.t.ndim]))
            rng.shuffle(lens)
            if any(n < len(g) for n, g in zip(lens, c.grids)):
                continue
            pos = []
            for n, g in zip(lens, c.grids):
                ps = set([0, n - 1][:len(g)]) if rng.chance(0.5) else set()
                while len(ps) < len(g):
                    ps.add(rng.below(n))
                pos.append(sorted(ps))
            hl = "H %s 0 %s" % (gid + "h", " ".join("%d %d %s" % (n, len(g), " ".join("%d:%s" % (p_, hexd(x)) for p_, x in zip(ps, g))) for n, g, ps in zip(lens, c.grids, pos)))
            f = os.path.join(wd, gid + ".cases")
            open(f, "w").write("\n".join(c.t.lines() + [hl]) + "\n")
            jobs.append((gid, f, lens, pos, hl))
        def one(job):
            gid, f, lens, pos, hl = job
            try:
                p = subprocess.run([self.harness, f], stdout=subprocess.PIPE, stderr=subprocess.PIPE, text=True, timeout=900,
                                   env=dict(os.environ, ASAN_OPTIONS="detect_leaks=0"))
                return job, p.returncode, parse_records(p.stdout).get(gid + "h", {"R": {}}), p.stderr[-1500:]
            except subprocess.TimeoutExpired:
                return job, -9, {"R": {}}, "timeout"
        from concurrent.futures import ThreadPoolExecutor
        with ThreadPoolExecutor(max_workers=4) as ex:
            results = list(ex.map(one, jobs))
        shutil.rmtree(wd, ignore_errors=True)
        hist = {}
        for (gid, f, lens, pos, hl), rc, rec, err in results:
            c = res["ids"][gid]
            total = 1
            for n in lens:
                total *= n
            key = "<2^31" if total < 2 ** 31 else "2^31..2^32-1" if total < 2 ** 32 else ">=2^32"
            hist[key] = hist.get(key, 0) + 1
            payload = dict(c.payload(gid), huge_grid={"lengths": lens, "positions": pos, "line": hl[:2000], "points": total})
            small = parse_nd(res["impl"][gid]["R"].get("cpp"))
            want = sorted((tuple(pos[d][i] for d, i in enumerate(idx)), hexd(v)) for idx, v in small[2])
            if rc != 0:
                out.violation("C17:huge-grid:crash", "grid of %s = %d points (all but %s abscissae beyond the last knot): harness exit %d: %s" % (lens, total, [len(g) for g in c.grids], rc, err[-300:]), payload)
                continue
            for who in ("cpp", "c"):
                entry = "grideval" if who == "cpp" else "splinetable_grideval"
                nd = parse_nd(rec["R"].get(who))
                if nd is None:
                    out.violation("C17:%s:huge-grid-refused" % entry, "grid of %s = %d points whose small counterpart %s evaluates to %d listed values: %s failed (%s)" % (
                        lens, total, [len(g) for g in c.grids], len(want), entry, " ".join(rec["R"].get(who) or ["no output"])[:200]), payload)
                    continue
                got = sorted((idx, hexd(v)) for idx, v in nd[2])
                if tuple(nd[1]) != tuple(lens):
                    out.violation("C17:%s:huge-grid-ranges" % entry, "index ranges %s differ from the grid lengths %s" % (nd[1], lens), payload)
                elif got != want and not (len(got) == len(want) and all(a[0] == b[0] and (a[1] == b[1] or (dfrom(int(a[1], 16)) != dfrom(int(a[1], 16)) and dfrom(int(b[1], 16)) != dfrom(int(b[1], 16)))) for a, b in zip(got, want))):
                    diff = [x for x in want if x not in got][:2], [x for x in got if x not in want][:2]
                    out.violation("C17:%s:huge-grid-differs" % entry, "grid of %s = %d points: the listed values are not those of the small grid of the same in-range abscissae re-indexed (missing %s, unexpected %s; %d vs %d entries)" % (
                        lens, total, diff[0], diff[1], len(got), len(want)), payload)
        stats["huge_grids"] = {"cases": len(results), "points": hist}
        return len(results)

    def run(self, info, out):
        tier, seed = info["tier"], info["seed"]
        stats = {}
        if info.get("replay"):
            return self.replay(info["replay"], out)
        n = 150 if tier == "quick" else 5000
        corpus = []
        cdir = os.path.join(VERIF, "corpus", "C17")
        if os.path.isdir(cdir):
            for f in sorted(os.listdir(cdir)):
                if f.endswith(".json"):
                    corpus.append(case_from_payload(json.load(open(os.path.join(cdir, f)))))
        if corpus:
            r0 = self.execute(corpus, "corpus")
            self.analyse(r0, out, stats)
            stats["corpus_cases"] = len(corpus)
        cases = self.gen(Rng(seed).fork("main"), n, tier)
        res = self.execute(cases, "g")
        ndiff = self.analyse(res, out, stats)
        nhuge = self.check_huge(res, Rng(seed).fork("huge"), 8 if tier == "quick" else 40, out, stats)
        searched = 0
        fresh = [v for v in out.violations if v[0] not in open_signatures("C17")]
        if (ndiff or not info["proof_ok"]) and not fresh:
            cases2 = self.gen(Rng(seed + 7919).fork("search"), 10 * n if tier == "quick" else 2 * n, tier)
            r2 = self.execute(cases2, "s", model=False)
            self.analyse(r2, out, stats, model=False)
            searched = len(cases2)
            fresh = [v for v in out.violations if v[0] not in open_signatures("C17")]
            if not fresh and ndiff:
                gid, d = stats["diffs"][0]
                p = res["ids"][gid].payload(gid)
                p.update({"broken": "correspondence GridModel.grideval vs splinetable::grideval / bsplinebasis", "disagreements": d, "no_failing_input_found": True})
                out.violation("C17:correspondence", "model and implementation disagree (%s); the property oracle found no failing input" % d[0][0], p)
        # coverage
        distinct, dist, dims, kinds, gp = set(), {}, {}, {}, 0
        twin = {"cases": 0, "knot_relation": {}, "abscissa_relation": {}, "knot_relation_x_same_abscissae": {}, "shared_leading_knots": {}, "knot_count": {}, "neighbours": {}}
        glen = {"all_axes_single_point": 0, "longest_axis": {}}
        for c in cases:
            dims[c.t.ndim] = dims.get(c.t.ndim, 0) + 1
            kd = c.kind.split("/")[0].split("(")[0] if c.kind.startswith(("twin", "long-grid", "single-point")) else c.kind
            kd = "twin" if kd.startswith("twin") else kd
            kinds[kd] = kinds.get(kd, 0) + 1
            if c.twin:
                twin["cases"] += 1
                for kr, gr, sh in zip(c.twin["knots"], c.twin["grids"], c.twin["shared_leading_knots"]):
                    twin["knot_relation"][kr] = twin["knot_relation"].get(kr, 0) + 1
                    twin["abscissa_relation"][gr] = twin["abscissa_relation"].get(gr, 0) + 1
                    if gr == "same":
                        twin["knot_relation_x_same_abscissae"][kr] = twin["knot_relation_x_same_abscissae"].get(kr, 0) + 1
                    key = "all" if sh == c.twin["nknots"] else str(sh) if sh < 3 else ">=3"
                    twin["shared_leading_knots"][key] = twin["shared_leading_knots"].get(key, 0) + 1
                nk = c.twin["nknots"]
                key = "<8" if nk < 8 else "8-15" if nk < 16 else ">=16"
                twin["knot_count"][key] = twin["knot_count"].get(key, 0) + 1
                nb = str(c.twin["dims"][1] - c.twin["dims"][0] + 1)
                twin["neighbours"][nb] = twin["neighbours"].get(nb, 0) + 1
            if all(len(g) == 1 for g in c.grids):
                glen["all_axes_single_point"] += 1
            ml = max(len(g) for g in c.grids)
            key = "1" if ml == 1 else "2-9" if ml < 10 else "10-99" if ml < 100 else "100-999" if ml < 1000 else ">=1000"
            glen["longest_axis"][key] = glen["longest_axis"].get(key, 0) + 1
            n1 = 1
            for d, g in enumerate(c.grids):
                n1 *= len(g)
                for x in g:
                    rc = region_class(c.t, d, x)
                    dist[rc] = dist.get(rc, 0) + 1
            gp += n1
            nontrivial = c.t.ndim >= 2 or any(("*" in cl) or cl.rstrip("*") not in ("rand", "mid") for cls in c.classes for cl in cls)
            if nontrivial:
                distinct.add(c.key())
        samples = []
        for gid in list(res["ids"])[:3]:
            c = res["ids"][gid]
            nd = parse_nd(res["impl"].get(gid, {"R": {}})["R"].get("cpp"))
            samples.append({"table": c.t.describe(), "kind": c.kind, "grid_lengths": [len(g) for g in c.grids], "grid_axis0": [repr(x) for x in c.grids[0][:6]],
                            "impl_ranges": nd[1] if nd else "THROW", "impl_listed": len(nd[2]) if nd else 0, "impl_first": [(list(i), repr(v)) for i, v in nd[2][:3]] if nd else []})
        return {"evaluations": stats.get("evaluations", 0) , "distinct_nontrivial": len(distinct), "rule": self.RULE, "samples": samples,
                "traces_validated_against_impl": stats.get("traces_validated_against_impl", 0), "compared_values": stats.get("compared_values", 0),
                "grid_points_checked_against_pointwise": gp, "huge_grids": stats.get("huge_grids"), "model_vs_impl_disagreeing_grids": ndiff, "disagreements": stats.get("diffs", [])[:5],
                "oracle_failures": stats.get("oracle_failures", 0), "search_volume_after_break": searched, "corpus_cases": stats.get("corpus_cases", 0),
                "grid_points_skipped_pointwise_NaN_D17": self.d17_skipped[0],
                "beyond_scope_points_on_last_knot": {"agree_with_pointwise": self.lastknot[0], "differ": self.lastknot[1], "with_nonzero_exact_value": self.lastknot[2],
                                                     "skipped_pointwise_NaN_D17": self.lastknot[3], "differ_samples": self.lastknot_samples},
                "input_distribution": {"tables_by_ndim": dims, "case_kinds": kinds, "abscissa_region_classes": dist, "twin_dimensions": twin, "grid_lengths": glen},
                "remarks": ["an all-zero coefficient array makes ndsparse(0, ndim) throw (recorded, not flagged: the property speaks of values only)"]}

    def replay(self, path, out):
        p = json.load(open(path))
        if "table" not in p:
            print("replay file names a broken obligation, not an input: %s" % p.get("broken"))
            return {"evaluations": 1, "distinct_nontrivial": 2}
        c = case_from_payload(p)
        res = self.execute([c], "replay")
        stats = {}
        nd = self.analyse(res, out, stats)
        for gid, o in res["impl"].items():
            print("impl  R cpp:", " ".join(o["R"].get("cpp", [])[:40])); print("impl  P    :", " ".join(o.get("P", [])[:40]))
        for gid, o in res["model"].items():
            print("model R    :", " ".join(o["R"].get("model", [])[:40]))
        print("replay: %d disagreeing grids %s, %d oracle failures" % (nd, stats.get("diffs", ""), stats.get("oracle_failures", 0)))
        for sig, what, _ in out.violations:
            print("  oracle: [%s] %s" % (sig, what))
        return {"evaluations": 1, "distinct_nontrivial": 2, "rule": "replay of " + path, "samples": [p.get("grids_float")]}

def run(info, out):
    return C17().run(info, out)
