"""C20 — a table object stays valid and leak-free across any history, even failed calls.

Correspondence: operation histories (<= 25 ops over 1..3 objects, valid and invalid arguments, reads of valid /
truncated / non-FITS inputs from disk and from memory, write_key / remove_key over a pool of 16 key names; plus the family
"10..16 stored keys, removals at the first / a middle / the last position, further writes") are run through the REAL splinetable<CheckAlloc> (checking
allocator as the Alloc template argument, ASan/UBSan/LSan build) and through the extracted ObjModel; for every
history also every position of ONE injected allocation failure.  After every operation the outcome class, the
field-by-field ownership picture (null / live block of N bytes / non-null-not-live), ndim/naux/shape, the live
multiset of block sizes, the number of allocations and the allocator errors are compared exactly.
The property's own statement is evaluated on the implementation's output alone (oracle)."""
import os, sys, json, re, hashlib, subprocess, shutil, time
from concurrent.futures import ThreadPoolExecutor
from common import *
cm_run = run      # common.run (this module defines its own run(info, out))

PROPERTIES_FILE = "Properties_C20"
ASSUMPTIONS = [
    "theorems are about ObjModel (ownership picture: ndim, naux, index-array contents, one slot per raw array), not about the C++ text; "
    "the tie is the exact differential comparison of this run",
    "knot/coefficient VALUES, cfitsio and the fitter's numerics are outside the model: which phase of a read fails, whether a write or the "
    "fitter fails are oracle inputs (all values quantified in the theorems; in the tie they are taken from the exception the real code threw)",
    "allocation failures enter only through the Alloc template parameter (allocate<T>); operator new inside the library (scratch arrays) is not failed — "
    "with one exception: while remove_key runs, the harness's replacement of the global operator new[] / delete[] counts, fails and leak-checks arrays "
    "too (a remove_key that parks the surviving entries in `new char_ptr_ptr[]`: the unchanged tree)",
    "evaluating an EMPTY table is outside the property (documented precondition, splinetable.h:139); histories never use a destroyed object",
    "C20_invariant / C20_balanced / C20_safe quantify over histories satisfying wf_op: the op names one of the model's 4 object slots; a file that passes "
    "the dimension check has ndim >= 1 (fitsio.h:193 throws otherwise) and ndim entries in naxes[]; a fit that passes the sanity checks of fit.h:26-67 has "
    "ndim >= 1 and as many knot vectors as orders; the byte count of a key is a function of the key. Each condition is shown necessary on the model "
    "(C20_wf_needed_*); none restricts the code",
]
TRUSTED_EXTRA = ["harness/C20_harness.cpp checking allocator (shared registry; detects double free / foreign pointer / size mismatch / leak; fault injection; "
                 "global operator new[] / delete[] replaced and put under the same bookkeeping while a remove_key call runs)",
                 "tools/translators/objfixes.py (which proposed fixes the tree contains -> Generated_objfixes.tree_cfg; remove_key's body must match one of two texts)"]

KEYS = {"KEY1": 1, "KEY2": 2, "KEY3": 3, "KEY4": 4, "KEY5": 5, "KEY6": 6, "LONGKEYNAME7": 7,
        # 16 names: histories with 10 and more stored keys occur (remove_key's behaviour depends on the number of stored keys)
        "KEY8": 8, "KEY9": 9, "KEY10": 10, "KEY11": 11, "KEY12": 12, "KEY13": 13, "KEY14": 14, "LONGKEYNAME15": 15, "K16": 16}
KEYNAME = {v: k for k, v in KEYS.items()}
NKEYS = len(KEYS)
SHAPES = [  # name, [(order, nknots)], [(key, value)]
    ("s1", [(2, 8)], [("KEY1", "hello"), ("KEY2", "12345678901")]),
    ("s2", [(2, 7), (1, 6)], []),
    ("s3", [(1, 5)], [("KEY3", "x"), ("KEY6", "it's")]),   # a value with a quote: doubled in the card, collapsed when stored
    ("s4", [(1, 5), (2, 7), (1, 5)],   # no order-0 dimension: factorial(0) in convolve.cpp loops 2^32 times (D4, C14)
     [("KEY1", "abc"), ("KEY4", "a" * 20)]),
    ("s5", [(2, 9), (1, 8)], [("KEY5", "v")]),   # orders kept <= 2: convolve's blossom recursion is exponential in the order
]
PHASE_CODE = {"none": 0, "hdu": 1, "dim": 2, "order": 3, "imgsize": 4, "coeff": 5, "knotsize": 6, "knotdata": 7, "extents": 8}

def card_inner(v):             # text between the outer quotes of the card: quotes doubled, padded to 8 characters
    return max(len(v) + v.count("'"), 8)
def stored_vlen(v):            # what the reader stores (+NUL): outer quotes stripped, doubled quotes collapsed, padding kept
    return card_inner(v) - v.count("'") + 1
def raw_vlen(v):               # strlen+1 of the quoted card value cfitsio hands back
    return card_inner(v) + 3
def file_desc(shape, open_fails, phase, parg):
    name, dims, aux = shape
    nd = len(dims)
    toks = [1 if open_fails else 0, PHASE_CODE[phase], parg, nd] + [o for o, _ in dims] + [k for _, k in dims] + [k - o - 1 for o, k in dims] + [len(aux)]
    for k, v in aux:
        toks += [KEYS[k], len(k) + 1, stored_vlen(v), raw_vlen(v)]
    return " ".join(map(str, toks))

def classify_msg(kind, outcome, msg):
    """exception text of the real code -> the model's reason enum"""
    if outcome != "fail":
        return outcome
    if "already_contains_data" in msg: return "fail refused"
    if "failed_to_open" in msg: return "fail open"
    if msg == "bad_alloc" or "Unable_to_allocate_storage" in msg: return "fail alloc"
    if "contains_no_data" in msg: return "fail empty"
    if kind == "dkey": return "fail input"     # remove_key has no argument checks: nothing but bad_alloc is expected from it
    if kind in ("wkey", "wkeyi", "perm", "conv"): return "fail invalid"
    if kind == "fit" and "GLAM" not in msg: return "fail invalid"
    return "fail input"
def phase_of_msg(msg):
    m = re.search(r"size_of_knot_vector_(\d+)", msg) or re.search(r"Invalid_number_of_knots.*dimension_(\d+)", msg)
    if m: return ("knotsize", int(m.group(1)))
    m = re.search(r"Error_reading_knot_vector_(\d+)_data", msg)
    if m: return ("knotdata", int(m.group(1)))
    for pat, ph in (("first_HDU", "hdu"), ("is_not_an_image", "hdu"), ("table_dimension", "dim"), ("read_order", "order"), ("coefficient_array", "imgsize"),
                    ("Invalid_size", "imgsize"), ("table_coefficients", "coeff"), ("extent_data", "extents"), ("Error_reading_", "extents")):
        if pat in msg: return (ph, 0)
    return None

# ------------------------------------------------------------------------------------------------
class Env:
    def __init__(self):
        self.harness = build_harness("C20_harness", ["C20_harness.cpp"], flavour="checked", repo_srcs=CORE_CPP)
        self.model = build_extracted("obj")
        self.dir = build_dir("C20_files")
        self.cfgbits = tree_cfg_bits()
        self.unusable = []
        self.inputs = {}          # input name -> dict(path, shape index, disk:(open_fails, phase, parg), mem:(...))
        self.make_inputs()
    def run_harness(self, casefile, ncases, timeout=1200):
        """returns {case id: [lines]}, crashes {case id: stderr tail}"""
        out, crashes, skip = {}, {}, 0
        env = dict(os.environ); env["ASAN_OPTIONS"] = "detect_leaks=1:exitcode=77:allocator_may_return_null=1"; env["UBSAN_OPTIONS"] = "print_stacktrace=1"
        while skip < ncases:
            p = subprocess.run([self.harness, "run", casefile, str(skip)], stdout=subprocess.PIPE, stderr=subprocess.PIPE, text=True, timeout=timeout, env=env, errors="replace")
            parsed, complete = parse_cases(p.stdout)
            out.update(parsed)
            announced = [l[1:] for l in p.stderr.split("\n") if l.startswith("@")]
            if p.returncode == 0 and len(complete) == len(announced):
                break
            # LeakSanitizer's exit status at process end is not a crash: every case completed
            if len(complete) == len(announced) and announced:
                if "LeakSanitizer" in p.stderr and "ERROR: AddressSanitizer" not in p.stderr.replace("ERROR: LeakSanitizer", ""):
                    crashes.setdefault("<lsan-at-exit>", p.stderr[-1500:])
                break
            if not announced:
                crashes["<startup>"] = p.stderr[-2000:]
                break
            bad = announced[-1]
            tail = [l for l in p.stderr.split("\n") if not l.startswith("@")]
            lastop = [l for l in tail if l.startswith("#")]
            crashes[bad] = {"op": lastop[-1] if lastop else "", "stderr": "\n".join(l for l in tail if not l.startswith("#"))[-2500:], "exit": p.returncode}
            skip += len(announced)
        return out, crashes
    def run_model(self, casefile):
        p = cm_run([self.model, casefile], timeout=1200)
        if p.returncode != 0:
            raise BuildError("model driver failed: " + p.stderr[-2000:])
        return parse_cases(p.stdout)[0]
    def make_inputs(self):
        spec = os.path.join(self.dir, "spec.txt")
        with open(spec, "w") as f:
            for name, dims, aux in SHAPES:
                f.write("file %s %d %s %d %s\n" % (os.path.join(self.dir, name + ".fits"), len(dims), " ".join("%d %d" % d for d in dims), len(aux),
                                                   " ".join("%s %s" % kv for kv in aux)))
        genv = dict(os.environ); genv["ASAN_OPTIONS"] = "detect_leaks=0"     # gen only produces the inputs; leaks are judged on the cases
        cm_run([self.harness, "gen", spec], check=True, timeout=300, env=genv)
        names = []
        for si, (name, dims, aux) in enumerate(SHAPES):
            full = open(os.path.join(self.dir, name + ".fits"), "rb").read()
            names.append((name, si))
            cuts = sorted(set([1000] + [k * 2880 for k in range(1, len(full) // 2880)] + [k * 2880 + 1440 for k in range(1, len(full) // 2880)]))
            for c in cuts:
                vn = "%s_t%d" % (name, c)
                with open(os.path.join(self.dir, vn + ".fits"), "wb") as f:
                    f.write(full[:c])
                names.append((vn, si))
        with open(os.path.join(self.dir, "junk.fits"), "wb") as f:
            f.write(b"this is not a FITS file\n" * 200)
        names.append(("junk", 0)); names.append(("missing", 0))
        # I/O oracle: which phase of the real reader fails on each input (disk and memory variants probed separately)
        probe = os.path.join(self.dir, "probe.txt")
        with open(probe, "w") as f:
            for vn, si in names:
                for how in ("read", "readmem"):
                    if vn == "missing" and how == "readmem":
                        continue
                    f.write("case %s:%s 0\nop new 0\nop %s 0 %s\nend\n" % (vn, how, how, os.path.join(self.dir, vn + ".fits")))
        out, crashes = self.run_harness(probe, 2 * len(names))
        for vn, si in names:
            d = {"path": os.path.join(self.dir, vn + ".fits"), "shape": si}
            for how in ("read", "readmem"):
                lines = out.get("%s:%s" % (vn, how))
                rl = [l for l in (lines or []) if l.startswith("r 1 ")]
                if not rl:
                    # the probe died inside cfitsio (its memory driver over-reads some truncated buffers: C07's domain) — input not used this way
                    if lines is not None: self.unusable.append("%s:%s" % (vn, how))
                    continue
                r = rl[0].split()
                if r[3] == "ok":
                    d[how] = (False, "none", 0)
                elif "failed_to_open" in r[4]:
                    d[how] = (True, "none", 0)
                else:
                    ph = phase_of_msg(r[4])
                    if ph is None:
                        raise BuildError("C20: cannot map the reader's exception to a phase: " + r[4])
                    d[how] = (False, ph[0], ph[1])
            self.inputs[vn] = d
        self.input_names = [vn for vn, _ in names if "read" in self.inputs[vn]]

def tree_cfg_bits():
    p = os.path.join(COQDIR, "theories", "Generated_objfixes.v")
    m = re.search(r"tree_cfg_bits\s*:=\s*\"([01]{9})\"", open(p).read())
    return m.group(1)

def parse_cases(text):
    cases, complete, cur, cid = {}, [], None, None
    for l in text.split("\n"):
        if l.startswith("case "):
            cid = l.split()[1]; cur = []; cases[cid] = cur
        elif cur is not None and l:
            cur.append(l)
            if l.startswith("end"):
                complete.append(cid)
    return cases, complete

# ------------------------------------------------------------------------------------------------
# a history = list of abstract ops (dicts); rendered once for the harness and once for the model
def gen_history(rng, env, maxlen=25):
    n = rng.rint(5, maxlen - 3)
    objs = {}           # slot -> shadow dict(nd, keys, convs) assuming no fault
    ops = []
    def live(): return sorted(objs)
    def free_slot():
        fs = [j for j in range(3) if j not in objs]
        return rng.choice(fs) if fs else None
    ops.append({"k": "new", "j": 0}); objs[0] = {"nd": 0, "keys": [], "convs": 0}
    risky = rng.chance(0.25)        # histories that also exercise argument errors the unfixed tree does not check
    while len(ops) < n:
        if not objs:
            ops.append({"k": "new", "j": 0}); objs[0] = {"nd": 0, "keys": [], "convs": 0}; continue
        j = rng.choice(live()); o = objs[j]
        c = rng.below(100)
        if c < 10:
            s = free_slot()
            if s is None: continue
            if rng.chance(0.3):
                vn = rng.choice(env.input_names)
                ops.append({"k": "newread", "j": s, "in": vn})
                info = env.inputs[vn].get("read")
                if info == (False, "none", 0):
                    sh = SHAPES[env.inputs[vn]["shape"]]; objs[s] = {"nd": len(sh[1]), "keys": [KEYS[k] for k, _ in sh[2]], "convs": 0}
            else:
                ops.append({"k": "new", "j": s}); objs[s] = {"nd": 0, "keys": [], "convs": 0}
        elif c < 32:
            vn = rng.choice(env.input_names) if rng.chance(0.6) else rng.choice([s[0] for s in SHAPES])
            how = rng.choice(["read", "readmem"])
            if how not in env.inputs[vn]: how = "read"
            ops.append({"k": how, "j": j, "in": vn})
            if o["nd"] == 0 and env.inputs[vn].get(how) == (False, "none", 0):
                sh = SHAPES[env.inputs[vn]["shape"]]; o["nd"] = len(sh[1]); o["keys"] = [KEYS[k] for k, _ in sh[2]]
        elif c < 47:
            bad = rng.chance(0.2)
            if bad:
                key, val = rng.choice([("bad", "x"), ("NAXIS1", "3"), ("KEY1", "v" * 80), ("ORDER", "1")])
                ops.append({"k": "wkey", "j": j, "key": key, "val": val, "invalid": True})
            else:
                kid = rng.rint(1, NKEYS if rng.chance(0.5) else 7); key = KEYNAME[kid]
                val = "v" * rng.rint(1, 24) if rng.chance(0.7) else str(rng.rint(0, 99999))
                ops.append({"k": "wkey", "j": j, "key": key, "val": val, "invalid": False})
                if kid not in o["keys"]: o["keys"].append(kid)
        elif c < 52:
            # remove_key: mostly a key the table holds (hit, any position), sometimes one it does not hold (miss)
            if o["keys"] and rng.chance(0.75): kid = rng.choice(o["keys"])
            else: kid = rng.rint(1, NKEYS)
            ops.append({"k": "dkey", "j": j, "key": KEYNAME[kid]})
            if kid in o["keys"]: o["keys"].remove(kid)
        elif c < 59:
            if o["nd"] and o["convs"] < 1 and not (risky and rng.chance(0.3)):
                # the blossom recursion is exponential in the order: a second convolution only with a 2-knot kernel
                nk = 2 if o["convs"] else rng.rint(2, 3)
                ops.append({"k": "conv", "j": j, "dim": rng.below(o["nd"]), "nk": nk}); o["convs"] += nk - 1
            elif risky:
                ops.append({"k": "conv", "j": j, "dim": o["nd"] + rng.below(2), "nk": rng.rint(1, 2)})
        elif c < 66:
            if o["nd"] and rng.chance(0.7):
                p = list(range(o["nd"])); rng.shuffle(p)
                ops.append({"k": "perm", "j": j, "p": p})
            elif o["nd"] or risky:
                p = rng.choice([[0, 0], [5], list(range(o["nd"] + 1)), []]) if o["nd"] else rng.choice([[0], []])
                if o["nd"] and p == [] : p = [7]
                ops.append({"k": "perm", "j": j, "p": p})
        elif c < 73:
            s = free_slot()
            if s is None: continue
            ops.append({"k": "movector", "j": s, "i": j}); objs[s] = o; objs[j] = {"nd": 0, "keys": [], "convs": 0}
        elif c < 79:
            if len(objs) < 2: continue
            i = rng.choice([x for x in live() if x != j] + ([j] if rng.chance(0.1) else []))
            ops.append({"k": "moveasg", "j": j, "i": i})
            if i != j:
                if env.cfgbits[6] == "1": objs[j] = objs[i]; objs[i] = {"nd": 0, "keys": [], "convs": 0}
                else: objs[j], objs[i] = objs[i], objs[j]
        elif c < 84:
            i = rng.choice(live())
            if objs[i]["nd"] == 0 and o["nd"] == 0 and not risky: continue
            ops.append({"k": "eq", "j": j, "i": i})
        elif c < 90:
            how = rng.choice(["write", "writemem", "writefail"])
            ops.append({"k": how, "j": j})
        elif c < 94:
            if o["nd"]: ops.append({"k": "eval", "j": j})
        else:
            ops.append({"k": "del", "j": j}); del objs[j]
    for j in live():
        ops.append({"k": "del", "j": j})
    return ops

def gen_many_keys(rng, env, n, maxkeys=14):
    """the family `many keys, then removals in every position (first / middle / last), then further writes`:
    one object (empty, or read from a file that already carries keys, or with keys written before the read) receives 10..maxkeys
    distinct keys, then keys are removed at the first, a middle and the last position of the table as it then is (in every order
    over the family, n = running number) with misses in between, then keys are written again (a removed one, a new one, an update),
    then one more removal; at the end the object is sometimes moved before it is destroyed."""
    ops = [{"k": "new", "j": 0}]
    keys = []                      # shadow of the key table, in table order
    if n % 3 == 1:                 # a populated table that brings its own keys
        vn = SHAPES[rng.choice([0, 2, 3, 4])][0]
        ops.append({"k": rng.choice(["read", "readmem"]) if "readmem" in env.inputs[vn] else "read", "j": 0, "in": vn})
        keys = [KEYS[k] for k, _ in SHAPES[env.inputs[vn]["shape"]][2]]
    pool = [k for k in range(1, NKEYS + 1) if k not in keys]; rng.shuffle(pool)
    want = rng.rint(10, maxkeys)
    def val(): return "v" * rng.rint(1, 24) if rng.chance(0.7) else str(rng.rint(0, 99999))
    while len(keys) < want and pool:
        k = pool.pop(); keys.append(k)
        ops.append({"k": "wkey", "j": 0, "key": KEYNAME[k], "val": val(), "invalid": False})
    removed = []
    orders = [("first", "middle", "last"), ("last", "first", "middle"), ("middle", "last", "first"),
              ("first", "last", "middle"), ("last", "middle", "first"), ("middle", "first", "last")]
    for pos in orders[n % 6]:
        if not keys: break
        i = 0 if pos == "first" else len(keys) - 1 if pos == "last" else rng.rint(1, max(1, len(keys) - 2))
        k = keys.pop(i); removed.append(k)
        ops.append({"k": "dkey", "j": 0, "key": KEYNAME[k], "pos": pos, "stored": len(keys) + 1})
        if rng.chance(0.4):
            ops.append({"k": "dkey", "j": 0, "key": KEYNAME[rng.choice(removed)], "pos": "miss", "stored": len(keys)})
    # further writes: a removed key comes back (appended at the end), an existing one is updated, a fresh one if any is left
    if removed:
        k = rng.choice(removed); removed.remove(k); keys.append(k)
        ops.append({"k": "wkey", "j": 0, "key": KEYNAME[k], "val": val(), "invalid": False})
    if keys:
        ops.append({"k": "wkey", "j": 0, "key": KEYNAME[rng.choice(keys)], "val": val(), "invalid": False})
    if pool:
        k = pool.pop(); keys.append(k)
        ops.append({"k": "wkey", "j": 0, "key": KEYNAME[k], "val": val(), "invalid": False})
    if keys:
        i = rng.below(len(keys)); k = keys.pop(i)
        ops.append({"k": "dkey", "j": 0, "key": KEYNAME[k], "pos": "any", "stored": len(keys) + 1})
    if n % 3 == 2 and len(ops) < 27:          # the keys written first, the table read afterwards (read_fits replaces the key table)
        ops.append({"k": "read", "j": 0, "in": SHAPES[rng.choice([0, 2])][0]})
    last = 0
    if n % 4 == 3:
        ops.append({"k": "movector", "j": 1, "i": 0}); ops.append({"k": "dkey", "j": 1, "key": KEYNAME[rng.rint(1, NKEYS)]}); ops.append({"k": "del", "j": 1})
    ops.append({"k": "del", "j": 0})
    return ops

def render(env, cid, ops, fault, lsan=True):
    """-> (harness text, model text)"""
    H = ["case %s %d" % (cid, fault)]; M = ["case %s %d %s" % (cid, fault, env.cfgbits)]
    for o in ops:
        k, j = o["k"], o["j"]
        if k == "new": H.append("op new %d" % j); M.append("op new %d" % j)
        elif k in ("read", "readmem", "newread"):
            inp = env.inputs[o["in"]]; how = "read" if k == "newread" else k
            of, ph, pa = inp[how]
            H.append("op %s %d %s" % (k, j, inp["path"]))
            M.append("op %s %d %s" % ("newread" if k == "newread" else "read", j, file_desc(SHAPES[inp["shape"]], of, ph, pa)))
        elif k == "wkey":
            H.append("op wkey %d %s %s" % (j, o["key"], o["val"]))
            M.append("op wkey %d %d %d %d %d" % (j, 1 if o["invalid"] else 0, KEYS.get(o["key"], 0), len(o["key"]) + 1, len(o["val"]) + 1))
        elif k == "dkey":
            H.append("op dkey %d %s" % (j, o["key"])); M.append("op dkey %d %d" % (j, KEYS.get(o["key"], 0)))
        elif k == "conv":
            H.append("op conv %d %d %d %s" % (j, o["dim"], o["nk"], " ".join(str(0.5 * x) for x in range(o["nk"]))))
            M.append("op conv %d %d %d" % (j, o["dim"], o["nk"]))
        elif k == "perm":
            H.append("op perm %d %s" % (j, " ".join(map(str, o["p"])))); M.append("op perm %d %s" % (j, " ".join(map(str, o["p"]))))
        elif k in ("movector", "moveasg", "eq"):
            H.append("op %s %d %d" % (k, j, o["i"])); M.append("op %s %d %d" % (k, j, o["i"]))
        elif k == "write": H.append("op write %d %s" % (j, os.path.join(env.dir, "out_%s.fits" % hashlib.md5(cid.encode()).hexdigest()[:8]))); M.append("op write %d 0" % j)
        elif k == "writemem": H.append("op writemem %d" % j); M.append("op write %d 0" % j)
        elif k == "writefail": H.append("op write %d %s" % (j, os.path.join(env.dir, "no_such_dir", "x.fits"))); M.append("op write %d 1" % j)
        elif k == "eval": H.append("op eval %d" % j); M.append("op eval %d" % j)
        elif k == "del": H.append("op del %d" % j); M.append("op del %d" % j)
    H.append("end lsan" if lsan else "end"); M.append("end")
    return "\n".join(H) + "\n", "\n".join(M) + "\n"

# ------------------------------------------------------------------------------------------------
def canon_impl(lines):
    """harness lines -> comparable records per op: (outcome, {slot: dump}, heap)"""
    ops, cur = [], None
    for l in lines:
        w = l.split()
        if w[0] == "r":
            cur = {"kind": w[2], "out": classify_msg(w[2], w[3], w[4]), "msg": w[4], "d": {}, "h": None}
            if w[2] == "dkey" and w[3] == "ok":       # the return value of remove_key is part of the outcome: true = the key was there
                cur["out"] = "ok hit" if w[4] == "true" else "ok miss"
            ops.append(cur)
        elif w[0] == "d":
            kv = dict(x.split("=", 1) for x in w[2:])
            full = "hash" in kv
            kv.pop("hash", None)
            if not full:
                for k in ("orders", "nk", "nax"): kv.pop(k, None)
            if kv.get("auxe", "-") != "-":
                kv["auxe"] = ",".join(re.sub(r"/([A-Z0-9]+)=", lambda m: "/k%d=" % KEYS.get(m.group(1), 0), e) for e in kv["auxe"].split(","))
            cur["d"][int(w[1])] = kv
            cur.setdefault("full", {})[int(w[1])] = full
        elif w[0] == "h":
            sizes, rest = l[1:].split("|")
            kv = dict(x.split("=", 1) for x in rest.split())
            errs = [("badfree" if e.startswith("badfree") else "wrongarena" if e.startswith("wrongarena") else e) for e in kv.get("errs", "").split(",") if e]
            cur["h"] = {"sizes": sizes.split(), "allocs": kv["allocs"], "nullfree": kv["nullfree"], "errs": errs}
        elif w[0] == "end":
            ops.append({"end": dict(x.split("=", 1) for x in w[1:])})
    return ops
def canon_model(lines):
    ops, cur = [], None
    for l in lines:
        w = l.split()
        if w[0] == "r":
            cur = {"kind": w[2], "out": (w[3] if w[4] == "-" else w[3] + " " + w[4]), "d": {}, "h": None}
            ops.append(cur)
        elif w[0] == "d":
            cur["d"][int(w[1])] = dict(x.split("=", 1) for x in w[2:])
        elif w[0] == "h":
            sizes, rest = l[1:].split("|")
            kv = dict(x.split("=", 1) for x in rest.split())
            cur["h"] = {"sizes": sizes.split(), "allocs": kv["allocs"], "nullfree": kv["nullfree"], "errs": [e for e in kv.get("errs", "").split(",") if e], "lost": int(kv["lost"])}
        elif w[0] == "end":
            ops.append({"end": dict(x.split("=", 1) for x in w[1:])})
    return ops

EMPTY_KEYS = ("order", "knots", "nknots", "extents", "periods", "coeff", "naxes", "strides", "aux")
def is_empty_dump(d):
    return d["ndim"] == "0" and d["naux"] == "0" and all(d[k] == "N" for k in EMPTY_KEYS)

def aux_keys(d):
    """key ids of a dumped object in table order; None when the dump could not walk the table (aux not a live block of 8*naux bytes)"""
    if d["naux"] == "0": return []
    if d.get("auxe", "-") == "-": return None
    ks = []
    for e in d["auxe"].split(","):
        m = re.search(r"/(k\d+)=", e)
        if not m: return None
        ks.append(m.group(1))
    return ks

def oracle(ops, iops, crash, fault):
    """the property's statement on the implementation's output alone. Returns first anomaly (signature, text) or None."""
    prev = {}
    fired = False
    for k, (o, r) in enumerate(zip(ops, iops)):
        if "end" in r: break
        kind = {"readmem": "read", "newread": "read", "writemem": "write", "writefail": "write"}.get(o["k"], o["k"])
        why = ""
        if r["out"].startswith("fail"):
            cls = r["out"].split()[1]
            why = "@alloc-fault" if cls == "alloc" else "@" + cls
        j = o["j"]
        errs = r["h"]["errs"]
        if errs and not prev.get("errs"):
            e = errs[0].split(":")[0]
            return ("C20:%s:%s%s" % (kind, e, why), "allocator contract violated at op %d (%s): %s" % (k, o["k"], ",".join(errs)))
        prev["errs"] = errs
        d = r["d"].get(j)
        if r["out"].startswith("fail") and o["k"] != "newread":
            before = prev.get(("d", j))
            if d is not None and before is not None and d != before and not is_empty_dump(d):
                return ("C20:%s:failed-op-leaves-partial-state%s" % (kind, why),
                        "op %d (%s) failed (%s) and left the object neither unchanged nor empty: %s" % (k, o["k"], r["msg"], d))
        if o["k"] == "dkey" and r["out"].startswith("ok") and d is not None and prev.get(("d", j)) is not None:
            # key edit: exactly the named key goes (first match), everything else stays where it was; a miss changes nothing
            bk, ak = aux_keys(prev[("d", j)]), aux_keys(d)
            kid = "k%d" % KEYS.get(o["key"], 0)
            if bk is not None:
                if (r["out"] == "ok hit") != (kid in bk):
                    return ("C20:dkey:wrong-result", "op %d remove_key(%s) returned %s but the table %s the key" % (k, o["key"], r["msg"], "holds" if kid in bk else "does not hold"))
                exp = list(bk)
                if kid in exp: exp.remove(kid)
                if ak != exp:
                    return ("C20:dkey:key-table", "op %d remove_key(%s): key table afterwards %s, expected %s" % (k, o["key"], ak, exp))
                if kid not in bk and d != prev[("d", j)]:
                    return ("C20:dkey:miss-changes-object", "op %d remove_key(%s) of an absent key changed the object: %s" % (k, o["key"], d))
        if o["k"] in ("read", "readmem") and r["out"] == "ok":
            before = prev.get(("d", j))
            if before is not None and before["ndim"] != "0":
                return ("C20:read:overwrites-populated", "op %d read into a populated table succeeded" % k)
        if o["k"] in ("movector", "moveasg") and r["out"] == "ok" and o["i"] != o["j"]:
            src = r["d"].get(o["i"])
            if src is not None and not is_empty_dump(src):
                return ("C20:%s:source-not-empty" % kind, "op %d (%s): the moved-from object is not empty afterwards: %s" % (k, o["k"], src))
        if o["k"] == "fit" and r["out"] == "ok":
            before = prev.get(("d", j))
            hb = prev.get("h")
        if o["k"] == "del" or (o["k"] == "newread" and r["out"].startswith("fail")):
            # storage that no live object refers to any more
            live_objs = r["d"]
            if not live_objs and r["h"]["sizes"]:
                return ("C20:%s:leak%s" % (kind, why), "after op %d (%s) no object is alive but %d blocks (%s bytes) are still allocated" % (
                    k, o["k"], len(r["h"]["sizes"]), "+".join(r["h"]["sizes"])))
        for jj, dd in r["d"].items(): prev[("d", jj)] = dd
        for jj in list(x[1] for x in prev if isinstance(x, tuple)):
            if jj not in r["d"]: prev.pop(("d", jj), None)
        prev["h"] = r["h"]
    if crash:
        m = re.match(r"#(\d+) op (\w+)", crash.get("op", "") if isinstance(crash, dict) else "")
        kind = m.group(2) if m else "?"
        kind = {"readmem": "read", "newread": "read", "writemem": "write"}.get(kind, kind)
        what = "crash"
        err = crash.get("stderr", "") if isinstance(crash, dict) else str(crash)
        mm = re.search(r"AddressSanitizer: ([a-zA-Z-]+)", err)
        if mm: what = mm.group(1)
        elif "runtime error: load of null pointer" in err or "null pointer" in err: what = "null-deref"
        elif "runtime error" in err: what = "ubsan"
        return ("C20:%s:%s" % (kind, what), "process died in op %s: %s" % (crash.get("op") if isinstance(crash, dict) else "?", err[-400:]))
    last = iops[-1] if iops else None
    if last and "end" in last and last["end"].get("lsan", "0") != "0":
        return ("C20:history:non-allocator-leak", "LeakSanitizer reports memory not obtained through the allocator as leaked")
    return None

def compare(iops, mops, crash):
    """first disagreement between implementation and model, or None. A model UB must coincide with a crash."""
    for k, m in enumerate(mops):
        if "end" in m:
            return None
        if m["out"].startswith("UB"):
            crashed_here = isinstance(crash, dict) and crash.get("op", "").startswith("#%d " % k)
            if crashed_here: return None
            if k < len(iops) and "end" not in iops[k] and iops[k]["h"]["errs"]: return None
            return (k, "model: undefined behaviour (an unset/dangling array is dereferenced) but the implementation survived", None, None)
        if k >= len(iops) or "end" in iops[k]:
            return (k, "implementation output ends early (crash) where the model continues", crash.get("op") if isinstance(crash, dict) else None, m["out"])
        i = iops[k]
        if i["out"] != m["out"]:
            return (k, "outcome", i["out"] + " [" + i["msg"] + "]", m["out"])
        if set(i["d"]) != set(m["d"]):
            return (k, "live objects", sorted(i["d"]), sorted(m["d"]))
        for j in i["d"]:
            a, b = i["d"][j], m["d"][j]
            for key in set(a) | set(b):
                if a.get(key) != b.get(key):
                    return (k, "object %d field %s" % (j, key), a.get(key), b.get(key))
        for key in ("sizes", "allocs", "nullfree", "errs"):
            if i["h"][key] != m["h"][key]:
                return (k, "allocator " + key, i["h"][key], m["h"][key])
    return None

# ------------------------------------------------------------------------------------------------
def execute(env, cases, tag, lsan=True):
    """cases: list of (cid, ops, fault). Runs both sides (implementation sharded over the cores). -> dict cid -> (iops, mops, crash).
    lsan=True: LeakSanitizer is consulted after every case (70 ms each); lsan=False: only at process exit, and if it reports
    anything there the whole set is run again with per-case checks so that the leak is attributed to its history."""
    shards = max(1, min(NCPU, len(cases) // 40 + 1))
    hfiles, mtext = [[] for _ in range(shards)], []
    for n, (cid, ops, fault) in enumerate(cases):
        h, m = render(env, cid, ops, fault, lsan=lsan)
        hfiles[n % shards].append(h); mtext.append(m)
    paths = []
    for s in range(shards):
        p = os.path.join(env.dir, "%s_h%d.txt" % (tag, s)); open(p, "w").write("".join(hfiles[s])); paths.append((p, len(hfiles[s])))
    mp = os.path.join(env.dir, "%s_m.txt" % tag); open(mp, "w").write("".join(mtext))
    with ThreadPoolExecutor(max_workers=shards + 1) as ex:
        mf = ex.submit(env.run_model, mp)
        hf = [ex.submit(env.run_harness, p, n) for p, n in paths]
        mout = mf.result()
        iout, crashes = {}, {}
        for f in hf:
            a, b = f.result(); iout.update(a); crashes.update(b)
    res = {}
    for cid, ops, fault in cases:
        res[cid] = (canon_impl(iout.get(cid, [])), canon_model(mout.get(cid, [])), crashes.get(cid))
    res["<global>"] = {k: v for k, v in crashes.items() if k.startswith("<")}
    if not lsan and "<lsan-at-exit>" in res["<global>"]:
        return execute(env, cases, tag + "_lsan", lsan=True)
    return res

def payload_of(env, cid, ops, fault, extra):
    h, m = render(env, cid, ops, fault)
    p = {"ops": ops, "fault_at_allocation": fault, "harness_case": h, "model_case": m, "cfg_bits": env.cfgbits,
         "inputs": {o["in"]: {"shape": SHAPES[env.inputs[o["in"]]["shape"]], "oracle": {k: v for k, v in env.inputs[o["in"]].items() if k in ("read", "readmem")}} for o in ops if "in" in o}}
    p.update(extra)
    return p

def analyse(env, cases, res, out, stats):
    ndiff = nor = 0
    for cid, ops, fault in cases:
        iops, mops, crash = res[cid]
        stats["ops_compared"] = stats.get("ops_compared", 0) + sum(1 for x in iops if "end" not in x)
        orc = oracle(ops, iops, crash, fault)
        diff = compare(iops, mops, crash)
        # model-side verdict for attribution of what the oracle saw
        if orc:
            nor += 1
            sig, what = orc
            stats.setdefault("oracle_signatures", {}); stats["oracle_signatures"][sig] = stats["oracle_signatures"].get(sig, 0) + 1
            out.violation(sig, what, payload_of(env, cid, ops, fault, {"oracle": what, "model_agrees": diff is None}))
        if env.cfgbits == "111111111" and mops:
            # C20_invariant / C20_never_ub / C20_clean / C20_balanced are PROVED (Properties_C20.v) for every history that satisfies wf_op
            # (every generated history does: slots < 4, ndim >= 1, one length per key); the same facts are re-checked here on the extracted
            # model for this very case — a disagreement would mean the extracted model is not the proved one, or a history leaves wf_op
            stats["model_invariant_cases"] = stats.get("model_invariant_cases", 0) + 1
            bad = None
            for k, mo in enumerate(mops):
                if "end" in mo:
                    alive = mops[k - 1]["d"] if k else {}
                    if not alive and mo["end"].get("balanced") != "true": bad = "trace not balanced after all objects were destroyed"
                elif mo["out"].startswith("UB"): bad = "model reaches undefined behaviour at op %d" % k
                elif mo["h"]["errs"] or mo["h"]["lost"]: bad = "model records allocator errors / lost blocks at op %d" % k
                if bad: break
            if bad and not orc:
                out.violation("C20:model-invariant", "ObjModel (fixed configuration) violates its invariant on this history: " + bad,
                              payload_of(env, cid, ops, fault, {"broken": "C20_invariant/C20_balanced: proved for wf_op histories, yet the extracted model violates them on this case", "detail": bad}))
        if diff:
            ndiff += 1
            stats.setdefault("diffs", []).append((cid, diff))
            if not orc:
                k, what, a, b = diff
                out.violation("C20:correspondence:%s" % ops[min(k, len(ops) - 1)]["k"], "model and implementation disagree at op %d: %s (impl %s, model %s)" % (k, what, a, b),
                              payload_of(env, cid, ops, fault, {"broken": "correspondence ObjModel.step vs splinetable<CheckAlloc>", "disagreement": [k, what, str(a), str(b)]}))
        else:
            stats["traces_validated"] = stats.get("traces_validated", 0) + 1
    return ndiff, nor

def total_allocs(mops):
    n = 0
    for m in mops:
        if "h" in m and m["h"]: n = int(m["h"]["allocs"])
    return n

def corpus_cases(env):
    d = os.path.join(VERIF, "corpus", "C20")
    cs = []
    if os.path.isdir(d):
        for f in sorted(os.listdir(d)):
            if f.endswith(".json"):
                p = json.load(open(os.path.join(d, f)))
                if all(o.get("in") in env.inputs for o in p["ops"] if "in" in o):
                    cs.append(("corpus_" + f[:-5], p["ops"], p.get("fault_at_allocation", 0)))
    return cs

def run(info, out):
    env = Env()
    tier, seed = info["tier"], info["seed"]
    stats = {}
    if info.get("replay"):
        p = json.load(open(info["replay"]))
        if "ops" not in p:
            print("replay file names a broken obligation, not an input: %s" % p.get("broken")); return {"evaluations": 1, "distinct_nontrivial": 2}
        cases = [("replay", p["ops"], p.get("fault_at_allocation", 0))]
        res = execute(env, cases, "replay")
        iops, mops, crash = res["replay"]
        for k, o in enumerate(p["ops"]):
            i = iops[k] if k < len(iops) and "end" not in iops[k] else None; m = mops[k] if k < len(mops) and "end" not in mops[k] else None
            print("op %d %s: impl %s | model %s" % (k, {x: y for x, y in o.items()}, (i["out"], i["msg"], i["h"]["errs"]) if i else "<no output>", m["out"] if m else "-"))
        print("crash:", crash)
        nd, no = analyse(env, cases, res, out, stats)
        print("replay: oracle anomalies %d, model/impl disagreements %d %s" % (no, nd, stats.get("diffs", "")))
        return {"evaluations": 1, "distinct_nontrivial": 2, "rule": "replay of " + info["replay"], "samples": [(p.get("harness_case") or render(env, "replay", p["ops"], p.get("fault_at_allocation", 0))[0])[:400]]}
    nseq = 300 if tier == "quick" else 3000
    rng = Rng(seed)
    # 1. corpus + fault-free histories
    base = corpus_cases(env)
    for n in range(nseq):
        base.append(("s%d_%d" % (seed, n), gen_history(rng.fork("h%d" % n), env), 0))
    nfam = 24 if tier == "quick" else 240
    for n in range(nfam):
        base.append(("k%d_%d" % (seed, n), gen_many_keys(rng.fork("k%d" % n), env, n, maxkeys=14 if n % 2 else NKEYS), 0))
    res0 = execute(env, base, "base")
    nd0, no0 = analyse(env, base, res0, out, stats)
    # 2. every single allocation-failure position of every history
    faulted = []
    for cid, ops, fault in base:
        if fault: continue
        T = total_allocs(res0[cid][1])
        for k in range(1, T + 1):
            faulted.append(("%s_f%d" % (cid, k), ops, k))
    res1 = execute(env, faulted, "fault", lsan=False) if faulted else {}
    nd1, no1 = analyse(env, faulted, res1, out, stats)
    glob = dict(res0.get("<global>", {})); glob.update(res1.get("<global>", {}) if faulted else {})
    if "<startup>" in glob:
        out.violation("C20:harness-startup", "harness died before the first case", {"broken": "harness", "detail": glob["<startup>"], "no_failing_input_found": True})
    if "<lsan-at-exit>" in glob:
        out.notes.append("LeakSanitizer at process exit (memory not attributed to a case): " + str(glob["<lsan-at-exit>"])[-300:])
    searched = 0
    if (not info["proof_ok"]) and not [v for v in out.violations if v[0] not in open_signatures("C20")]:
        # (D) a proof obligation broke and this run's histories show nothing: search 10x
        extra = [("x%d_%d" % (seed, n), gen_history(rng.fork("x%d" % n), env), 0) for n in range(10 * nseq)]
        rx = execute(env, extra, "search"); analyse(env, extra, rx, out, stats); searched = len(extra)
    # coverage
    allc = base + faulted
    opk, outk, lens, distinct = {}, {}, {}, set()
    for cid, ops, fault in allc:
        key = hashlib.sha256(json.dumps([ops, fault], sort_keys=True).encode()).hexdigest()
        kinds = set(o["k"] for o in ops)
        if len(kinds) >= 4 or any(o["k"] == "dkey" and o.get("stored", 0) >= 3 for o in ops): distinct.add(key)
    for cid, ops, fault in base:
        lens[len(ops)] = lens.get(len(ops), 0) + 1
        for o in ops: opk[o["k"]] = opk.get(o["k"], 0) + 1
    rk = {"hit": 0, "miss": 0, "hit_with_10_or_more_keys_stored": 0, "hit_first": 0, "hit_middle": 0, "hit_last": 0, "failed_by_injected_fault": 0,
          "max_keys_stored_at_a_hit": 0}
    for cid, ops, _ in allc:
        iops = (res0 if cid in res0 else res1)[cid][0]
        for r in iops:
            if "out" in r: outk[r["out"]] = outk.get(r["out"], 0) + 1
        prevd = {}
        for o, r in zip(ops, iops):
            if "end" in r: break
            if o["k"] == "dkey" and r["out"] != "skipped":
                if r["out"].startswith("fail"): rk["failed_by_injected_fault"] += 1
                bk = aux_keys(prevd[o["j"]]) if o["j"] in prevd else None
                if r["out"] == "ok miss": rk["miss"] += 1
                elif r["out"] == "ok hit" and bk is not None:
                    rk["hit"] += 1; kid = "k%d" % KEYS.get(o["key"], 0)
                    pos = bk.index(kid) if kid in bk else -1
                    if len(bk) >= 10: rk["hit_with_10_or_more_keys_stored"] += 1
                    rk["max_keys_stored_at_a_hit"] = max(rk["max_keys_stored_at_a_hit"], len(bk))
                    rk["hit_first" if pos == 0 else "hit_last" if pos == len(bk) - 1 else "hit_middle"] += 1
            prevd = dict(r["d"])
    samples = []
    for cid, ops, fault in (base[:1] + faulted[:2]):
        samples.append({"case": cid, "fault_at_allocation": fault, "ops": ops[:8], "impl_outcomes": [r.get("out") for r in (res0 if cid in res0 else res1)[cid][0] if "out" in r][:12]})
    return {"evaluations": len(allc) + searched, "distinct_nontrivial": len(distinct),
            "rule": "a case = (history of <= 25 operations over <= 3 objects — or a history of the many-keys family: one object, 10..16 distinct keys written, "
                    "removals at the first / a middle / the last position with misses in between, further writes, <= 30 operations —, position of the "
                    "injected allocation failure or none); non-trivial = at least 4 different operation kinds, or a remove_key that hits a table holding "
                    ">= 3 keys; distinct by hash of (ops, fault position)",
            "samples": samples, "traces_validated_against_impl": stats.get("traces_validated", 0), "ops_compared": stats.get("ops_compared", 0),
            "input_distribution": {"ops_by_kind_in_fault_free_histories": opk, "implementation_outcomes": outk, "history_lengths": lens,
                                   "fault_free_histories": len(base), "many_keys_family_histories": nfam, "single_fault_cases": len(faulted), "inputs": len(env.inputs),
                                   "remove_key_calls(all cases)": rk},
            "model_vs_impl_disagreeing_cases": nd0 + nd1, "oracle_anomalies": no0 + no1, "oracle_signatures": stats.get("oracle_signatures", {}),
            "tree_cfg_bits(aux,clear,conv,fit,eq,perm,moveasg,auxsize,rmkey)": env.cfgbits, "first_disagreements": [str(d) for d in stats.get("diffs", [])[:5]],
            "search_volume_after_break": searched, "model_invariant_tested_cases": stats.get("model_invariant_cases", 0),
            "inputs_not_usable": env.unusable[:20]}
