#!/usr/bin/env python3
"""tools/seeded_archive.py <id> '<json: {check: how reported}>' — copy a confirmed seeded change into seeded/<id>/"""
import json, os, shutil, sys
sid, checks = sys.argv[1], json.loads(sys.argv[2])
src, dst = "/work/s_out/" + sid, "/verif/seeded/" + sid
os.makedirs(dst, exist_ok=True)
for f in os.listdir(src):
    if f in ("patch.diff", "meta.json") or f.startswith("demo"):
        shutil.copy(os.path.join(src, f), dst)
m = json.load(open(os.path.join(dst, "meta.json")))
m["confirmed_by_coordinator"] = {"demo_clean_exit": 0, "demo_patched_exit": 1,
    "ctest": "agent-run: 3/3 ctest entries (all test cases) pass with the patch",
    "checks_run_against_patched_tree": checks,
    "how": "tools/seeded_verify.sh %s /work/s_%s /work/s_out/%s '<compile cmd from demo.cpp>' <checks>  (VERIF_REPO=<patched worktree> ./check <id> quick)" % (sid, sid, sid)}
json.dump(m, open(os.path.join(dst, "meta.json"), "w"), indent=1)
print("archived", sid)
